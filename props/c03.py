"""C03 — tokenizing any text terminates and consumes the whole input."""
import base64
import json
import os

from lib import common as C
from lib import corr
from lib.flow import Failure

MANIFEST = {
    "text": "Theorems C03_* (Coq) state for every rune sequence that the modelled lexer's Advance is total with fuel "
            "linear in the input, that every successful Advance strictly decreases a potential (so the token count is "
            "bounded by 3*|input|+1), that end-of-stream is only answered when every rune has been consumed, and that "
            "parser.Read never answers `read error` on a token the lexer can emit; C03_read_stream_go composes them with Go's "
            "own unicode tables, hypothesis-free: for every rune sequence the whole parser.Read stream (read_all, the term the "
            "correspondence evaluates) is tokens of defined kinds, then end of stream, within 3*|input|+3 tokens; the model (reader, lexer, token layer "
            "of the parser incl. Row/ErrorRow) is tied to the code by differential execution on generated rune strings "
            "through the public lexer/parser API.",
    "note": "Trusted: Coq kernel + vm_compute; unicode.IsSpace/IsDigit/IsUpper/IsLower are Section parameters in the "
            "theorems and tables generated from Go's unicode package in the correspondence; strconv.ParseInt/ParseFloat "
            "modelled only through INT-vs-FLOAT; UTF-8 decoding is Go's ([]rune(string(bytes))).",
    "technique": "Coq proof (potential function / induction on fuel) over a hand-written Gallina lexer model; "
                 "correspondence by vm_compute vs lexer.Advance/parser.Read",
}
REQUIRES = ["Model/Lexer.v", "Model/Parser.v", "Generated.v"]
VARIANT = "fixed_lex"
RULE = ("rune strings: exhaustive 1- and 2-rune strings over a 48-rune alphabet of every character the lexer "
        "distinguishes, random strings over it, chunks and mutations of golden programs, EOF specials; "
        "non-trivial = at least 2 tokens or an unterminated/special construct; distinct = distinct byte string")
TRUSTED = ["Go's UTF-8 decoding and unicode tables (generated, not modelled)"]
ASSUMPTIONS = ["is_space 0 = false and is_digit 0 = false (true of Go's unicode tables; checked by vm_compute over the generated ranges)"]
PARTIAL = []

ALPHABET = [ord(c) for c in "abAB019 \n\t<>=.%!+-/&|()`,{}[]^;\"'#:*?@$_\\~xoe"] + [0, 0xE9, 0x660, 0x3000, 0xFFFD, 0x1F600]
PUNCT = set(ord(c) for c in "\n()`,{}[]^;.")

EOF_SPECIALS = ["#", "# c", "x = 1 # c", "<", "a <", "%", "a %", "'", '"', '"abc', "'a\\", ':"x', 'a:"x', "a:\"x y", "1.", "1.e", "-",
                "a.", "..", "...", "1..2", "1...2", "&", "&.", "|", "||", "||=", "|=", "=", "==", "===", "=>", "!", "!=", "->",
                "+5", "-5", "+ 5", "- 5", "-x", "0x1f", "0b101", "1_000", "1.5.2", "99999999999999999999", "9223372036854775807",
                "9223372036854775808", "\u0661", "1\u0661", "<<~EOS\n a\nEOS\n", "<<EOS", "%w[a b]", "%i(a)", "%=", "#{", "*=", "*a=b", "nil",
                "true", "False", "Foo", "FOO", "F", "FO", ":sym", "::", "A::B", "a: 1", "@a", "$g", "\x00", "a\x00b", "a = 1\n\x00\n1.nope\n",
                "\x00\x00", "`", "a`b", "\u3000x", "x\u00a0y", "\ufffd", "\xff\xfe", "a\r\nb", "a;b", "1.\n", "1.\x00", ". ", ".\n", "&x", "& x", "&&",
                "x&.y", "[1,2].each{|v|v}", "a ? b : c", "def f(a, b = 1, *c, k:, **o, &blk)\nend\n", '"hello #{name', '"#{', '"x#{"y"}z"', '"a#{b}c"\n', "'#{x", "'it''s'", "\"a\\\"b\"", "\"a\nb\"\n\"a\nb\"\n1.x"]


def to_bytes(runes):
    out = bytearray()
    for c in runes:
        if 0xD800 <= c <= 0xDFFF:
            c = 0xFFFD
        out += chr(c).encode("utf-8")
    return bytes(out)


def gen_inputs(ctx):
    r = ctx.rng("lex")
    inputs = []
    for s in EOF_SPECIALS:
        inputs.append(s.encode("utf-8", "surrogateescape") if isinstance(s, str) else s)
    inputs.append(b"\xff\xfe a")
    inputs.append(b"a\xc3")
    for a in ALPHABET:
        inputs.append(to_bytes([a]))
    pairs = [(a, b) for a in ALPHABET for b in ALPHABET]
    if ctx.quick:
        pairs = r.sample(pairs, 500)
    for a, b in pairs:
        inputs.append(to_bytes([a, b]))
    for _ in range(ctx.n(400, 6000)):
        n = r.choice([3, 3, 4, 5, 6, 8, 12, 20])
        inputs.append(to_bytes([r.choice(ALPHABET) for _ in range(n)]))
    gold = C.golden_programs()
    for _ in range(ctx.n(120, 1500)):
        src = open(r.choice(gold), "rb").read()
        if not src:
            continue
        k = r.random()
        if k < 0.4:     # a prefix (what an editor sends)
            inputs.append(src[:r.randrange(len(src) + 1)])
        elif k < 0.7:   # a chunk
            a = r.randrange(len(src))
            inputs.append(src[a:a + r.randrange(1, 200)])
        else:           # a mutation
            b = bytearray(src[:600])
            for _ in range(r.randint(1, 4)):
                if b:
                    b[r.randrange(len(b))] = r.choice(to_bytes([r.choice(ALPHABET)]))
            inputs.append(bytes(b))
    seen, out = set(), []
    for b in inputs:
        if b not in seen and len(b) <= 4000:
            seen.add(b)
            out.append(b)
    return out


def coq_runes(rs):
    return "[" + ";".join(str(x) for x in rs) + "]%N"


def decode_runes(b64s):
    raw = base64.b64decode(b64s)
    return [ord(ch) for ch in raw.decode("utf-8", "replace")]


def obs_term(toks, end):
    items = []
    for t in toks:
        if t["tag"] == -2:
            res = {"eos": "REos", "error": "RError"}.get(end)
            if res is None:
                return None
            items.append("(%s, %d%%Z, %d%%Z)" % (res, t["row"], t["erow"]))
            continue
        tag = t["tag"]
        s = decode_runes(t["s"]) if t["s"] else []
        if tag == 257:
            k = "(KInt (%d)%%Z)" % t["i"]
        elif tag == 261:
            k = "KFloat"
        elif tag == 259:
            k = "(KString %s)" % coq_runes(s)
        elif tag == 0:
            k = "KNil"
        elif tag == 260:
            k = "KBool"
        elif tag == 268:
            k = "(KClass %s)" % coq_runes(s)
        elif tag == 272:
            k = "(KConst %s)" % coq_runes(s)
        elif tag == 270:
            k = "(KSymbol %s)" % coq_runes(s)
        elif tag == 258:
            k = "(KIdent %s)" % coq_runes(s)
        else:
            k = "(KIdent [999999])"
        items.append("(RTok %s %s, %d%%Z, %d%%Z)" % (k, C.coq_bool(t["sp"]), t["row"], t["erow"]))
    return "[" + "; ".join(items) + "]"


PARSER_PUNCTS = set()


def part_lexer_corr(ctx, part):
    global PARSER_PUNCTS
    g = json.load(open(os.path.join(C.BUILD, "gen.json")))
    PARSER_PUNCTS = set(g["parser_puncts"])
    inputs = gen_inputs(ctx)
    outs = C.vh_batch([{"op": "lex", "b64": base64.b64encode(b).decode(), "max": 3 * len(b) + 20} for b in inputs])
    terms, kept = [], []
    for b, o in zip(inputs, outs):
        part.evaluations += 1
        part.count("len<=2" if len(b) <= 2 else "len<=20" if len(b) <= 20 else "len>20")
        if o.get("hang"):
            part.count("impl_hang")
            part.failures.append(Failure("lexer_hang", "lexer/parser.Read does not terminate on %r" % b[:80],
                                         {"b64": base64.b64encode(b).decode()}))
            continue
        if o.get("end") == "panic" or "panic" in o:
            part.failures.append(Failure("lexer_panic", "parser.Read panics on %r: %s" % (b[:80], o.get("panic")),
                                         {"b64": base64.b64encode(b).decode()}))
            continue
        part.count("end=" + o["end"])
        ntok = len(o["toks"]) - 1
        if ntok >= 2 or o["end"] != "eos":
            part.nontrivial.add(b)
        if o["end"] == "eos" and not o.get("eof"):
            part.failures.append(Failure("not_consumed", "end of stream answered before every rune was consumed on %r" % b[:80],
                                         {"b64": base64.b64encode(b).decode()}))
        if o["end"] == "error":
            part.failures.append(Failure("read_error", "parser.Read answers `read error` on %r" % b[:80],
                                         {"b64": base64.b64encode(b).decode()}))
        if ntok > 3 * len(o["runes"] or []) + 3:
            part.failures.append(Failure("token_bound", "more than 3n+3 tokens on %r" % b[:80],
                                         {"b64": base64.b64encode(b).decode()}))
        ot = obs_term(o["toks"], o["end"])
        if ot is None:
            part.mismatches.append({"input_b64": base64.b64encode(b).decode(), "why": "token limit reached"})
            continue
        runes = o["runes"] or []
        terms.append("(%s, %s)" % (coq_runes(runes), ot))
        kept.append(b)
        part.sample({"input": b[:60].decode("utf-8", "replace"), "tokens": ntok, "end": o["end"]})
    okf = ("fun c => let n := (3 * List.length (fst c) + 20)%%nat in "
           "match read_all go_is_space go_is_digit go_is_upper go_is_lower %s [] n n (ps_new (fst c)) with "
           "| Some l => obs_eqb l (snd c) | None => false end" % VARIANT)
    bad = corr.coq_mismatches(["Model.Parser", "Generated"], "list N * list (read_result * Z * Z)", okf, terms, chunk=250)
    for i in bad:
        part.mismatches.append({"fn": "lexer.Advance/parser.Read", "input_b64": base64.b64encode(kept[i]).decode(),
                                "input": kept[i][:80].decode("utf-8", "replace")})
    part.agreed = len(terms) - len(bad)


PARTS = [part_lexer_corr]


def replay(path):
    d = json.load(open(path))
    print(json.dumps(d, indent=1)[:4000])
    return 0
