"""C17 — block parameters get declared types and block locals stay local."""
import json
import re

from lib import blockgen
from lib import bpcorr
from lib import common as C
from lib import corr
from lib.flow import Failure

MANIFEST = {
    "text": "Theorems C17_* (Coq) on a model of the block scope (snapshot of the variable table, parameters bound to the declared "
            "types with NilClass for surplus ones, body, RestoreFrame deleting every key the snapshot lacks, parameter names "
            "re-bound to what they were): a variable first assigned inside the block is not bound after it, and a parameter "
            "that shadows an outer variable leaves it with its previous type — for EVERY body (assignments and nested blocks "
            "at any depth; the statements do not depend on what the body does); inside the block parameter i has the i-th "
            "declared type; for a receiver of union type each parameter is the union over the variants of what the variant's "
            "method declares for the position, NilClass where it declares fewer (C17_union_receiver); the resolution of the declared "
            "types against the receiver is modelled (appendParameterBeforeTypeCalculate: Unify, Flatten, Item, Self, UnifyArgument, "
            "arrays and unions of them): Unify is the union of the receiver's element types, Flatten with at most one block variable "
            "the same, and with two or more a receiver holding tuples [x1..xk] gives variable j the type xj (C17_resolve_*). Tie: "
            "that function is folded over generated declared lists through a hook (receivers: arrays, arrays of arrays, hashes, "
            "ranges, strings, unions; 0-3 block variables) and compared with the model, receiver afterwards included; union receivers of "
            "2-3 variants of different classes (arrays, ranges, hashes) with 1-3 block variables are run through ti and every "
            "parameter is compared with `union_declared` by vm_compute; the model is run on the block structure of generated programs and compared with what ti "
            "prints after each block (vm_compute); end to end, generated block calls (do/end and braces) over arrays, "
            "arrays of pairs, hashes, ranges, strings and integers with 0-3 parameters, shadowing, locals and nesting two "
            "deep, after an ordinary call resolved earlier in the file, are compared with the declared block_parameters "
            "resolved against the receiver at every dbtp.",
    "note": "Trusted: Coq kernel + vm_compute; lib/blockgen.py (declared block_parameters of the shipped configuration, resolved "
            "by hand for 17 receiver/method pairs). Item on a hash receiver (it draws a fresh symbol id) is "
            "exercised end to end only.",
    "technique": "Coq proof (scope discipline of snapshot/restore, independent of the body); correspondence by vm_compute on the "
                 "variable table after blocks; end-to-end comparison with declared block parameter types",
}
REQUIRES = ["Model/Blocks.v", "Model/BlockParams.v"]
RULE = ("1-3 top-level block calls per program from 17 receiver/method pairs (4 of them union receivers), 0-3 parameters (30% shadowing an outer variable), "
        "0-3 locals, nesting <= 2; dbtp of every parameter, local and outer variable inside, after nested blocks and after the "
        "block; non-trivial = nesting, shadowing or surplus parameters")
TRUSTED = []
ASSUMPTIONS = []
PARTIAL = ["a block parameter that shadows nothing stays bound (as untyped) after the block: not addressed by the property",
           "Item on a hash receiver and declared types written as a namespace path: not modelled"]


def part_e2e(ctx, part):
    def one(i):
        r = C.rng_for(ctx.pid, ctx.seed, "blk%d" % i)
        src, exp = blockgen.gen_program(r)
        with C.Workdir() as wd:
            return src, exp, wd.ti([wd.write(src, "t.rb")])

    for src, exp, x in C.pmap(one, list(range(ctx.n(150, 1500))), par=8):
        if x.timeout:
            continue
        got = {}
        for l in x.out.split("\n"):
            m = re.match(r'^t\.rb:::(\d+):::(.*)$', l)
            if m:
                got.setdefault(int(m.group(1)), m.group(2))
        if re.search(r'^\s+\S.*(do|\{)( \|.*\|)?$', src, re.M):
            part.nontrivial.add(src)
        for row, want, note in exp:
            part.evaluations += 1
            part.count(note)
            if got.get(row) == want:
                part.agreed += 1
            else:
                kind = {"block local after block": "block_local_leaks", "outer variable after block": "outer_not_restored"}.get(note, "wrong_parameter_type")
                part.failures.append(Failure(kind, "row %d (%s): expected %s, ti reports %s" % (row, note, want, got.get(row)),
                                             {"program": src, "row": row, "rule": note}))
        part.sample({"lines": len(src.split("\n")), "probes": len(exp)})


def part_model_tie(ctx, part):
    """one block with locals and a nested block: the variable table after it, model vs ti"""
    r = ctx.rng("tie")
    cases = []
    for _ in range(ctx.n(60, 500)):
        outer = [("v%d" % i, t) for i, (_, t) in enumerate(r.sample(blockgen.VALS, r.randint(1, 3)))]
        lits = {t: txt for txt, t in blockgen.VALS}
        params = [r.choice([o[0] for o in outer]) if r.random() < 0.4 else "q%d" % j for j in range(r.randint(0, 3))]
        params = list(dict.fromkeys(params))
        locs = [("l%d" % j, r.choice(blockgen.VALS)) for j in range(r.randint(0, 2))]
        inner_locs = [("m%d" % j, r.choice(blockgen.VALS)) for j in range(r.randint(0, 2))]
        assign_outer = r.random() < 0.3 and [o for o in outer if o[0] not in params]
        lines = ["%s = %s" % (v, lits[t]) for v, t in outer]
        lines.append("[1, 2].each_with_index do%s" % (" |%s|" % ", ".join(params) if params else ""))
        for v, (txt, _) in locs:
            lines.append("  %s = %s" % (v, txt))
        lines.append("  [1.5].each do |f0|")
        for v, (txt, _) in inner_locs:
            lines.append("    %s = %s" % (v, txt))
        lines.append("  end")
        body = ["(SSet string %s %s)" % (C.coq_str(v), C.coq_str(t)) for v, (_, t) in locs]
        body.append("(SBlk string [\"f0\"%%string] [\"Float\"%%string] %s)" % C.coq_list(["(SSet string %s %s)" % (C.coq_str(v), C.coq_str(t)) for v, (_, t) in inner_locs]))
        if assign_outer:
            v = assign_outer[0][0]
            lines.append("  %s = :a" % v)
            body.append("(SSet string %s \"Symbol\")" % C.coq_str(v))
        lines.append("end")
        names = [o[0] for o in outer] + [v for v, _ in locs] + [v for v, _ in inner_locs] + [p for p in params if p.startswith("q")]
        rows = {}
        for v in names:
            lines.append("dbtp %s" % v)
            rows[v] = len(lines)
        term_env = C.coq_list(["(%s, %s)" % (C.coq_str(v), C.coq_str(t)) for v, t in outer])
        blk = "(SBlk string %s [\"Integer\"%%string; \"Integer\"%%string] %s)" % (C.coq_list([C.coq_str(p) for p in params]), C.coq_list(body))
        cases.append(("\n".join(lines) + "\n", rows, term_env, blk))

    def run(c):
        with C.Workdir() as wd:
            return wd.ti([wd.write(c[0], "t.rb")])

    terms, kept = [], []
    for (src, rows, env, blk), x in zip(cases, C.pmap(run, cases, par=8)):
        part.evaluations += 1
        if x.timeout:
            continue
        got = {}
        for l in x.out.split("\n"):
            m = re.match(r'^t\.rb:::(\d+):::(.*)$', l)
            if m:
                got.setdefault(int(m.group(1)), m.group(2))
        obs = C.coq_list(["(%s, %s)" % (C.coq_str(v), C.coq_str(got.get(row, "?"))) for v, row in rows.items()])
        part.nontrivial.add(src)
        terms.append("(%s, %s, %s)" % (env, blk, obs))
        kept.append(src)
        part.sample({"program_lines": len(src.split("\n"))})
    fn = ("fun c => let '(e, blk, obs) := c in let e' := exec string \"NilClass\" \"untyped\" (String.eqb \"Unknown\") blk e in "
          "forallb (fun o => String.eqb (match aget e' (fst o) with Some t => t | None => \"Unknown\" end) (snd o)) obs")
    bad = corr.coq_mismatches(["Model.Blocks"], "amap string * stmt string * list (string * string)", fn, terms, chunk=150)
    for i in bad:
        part.mismatches.append({"fn": "Do.prepareBlockScope / makeRestoreFunc", "program": kept[i]})
    part.agreed += len(terms) - len(bad)


UNION_VARIANTS = [   # receiver text, class, what `each` declares for it
    ("[1, 2]", "Array", ["Integer"]), ("[1.5]", "Array", ["Float"]), ('["a"]', "Array", ["String"]),
    ("(1..3)", "Range", ["Integer"]), ("{a: 1.5}", "Hash", ["untyped", "Float"]), ('{a: "s"}', "Hash", ["untyped", "String"]),
    ("{a: 1}", "Hash", ["untyped", "Integer"]),
]


def part_union_receiver_tie(ctx, part):
    """u = c ? V1 : V2 [: V3]; u.each do |p0, ..| — every parameter against `union_declared` (vm_compute)"""
    r = ctx.rng("union")
    cases = []
    for _ in range(ctx.n(60, 500)):
        k = r.choice([2, 2, 3])
        vs = []
        for v in r.sample(UNION_VARIANTS, len(UNION_VARIANTS)):
            if v[1] not in [w[1] for w in vs]:
                vs.append(v)
            if len(vs) == k:
                break
        n = r.choice([1, 1, 2, 2, 3])
        lines = ["c = true"]
        if len(vs) == 2:
            lines.append("u = c ? %s : %s" % (vs[0][0], vs[1][0]))
        else:
            lines.append("h = c ? %s : %s" % (vs[0][0], vs[1][0]))
            lines.append("u = c ? h : %s" % vs[2][0])
        ps = ["p%d" % i for i in range(n)]
        lines.append("u.each %s |%s|" % ("do", ", ".join(ps)))
        rows = []
        for p in ps:
            lines.append("  dbtp %s" % p); rows.append(len(lines))
        lines.append("end")
        cases.append((vs, n, "\n".join(lines) + "\n", rows))

    def run1(c):
        with C.Workdir() as wd:
            return wd.ti([wd.write(c[2], "t.rb")])
    outs = C.pmap(run1, cases, par=8)
    terms, kept = [], []
    for (vs, n, src, rows), x in zip(cases, outs):
        part.evaluations += 1
        if x.timeout:
            continue
        got = {}
        for l in x.out.split("\n"):
            m = re.match(r'^t\.rb:::(\d+):::(.*)$', l)
            if m:
                got.setdefault(int(m.group(1)), m.group(2))
        if n > 1 or len(vs) > 2:
            part.nontrivial.add(src)
        obs = C.coq_list([C.coq_str(got.get(row, "<none>")) for row in rows])
        decl = C.coq_list([C.coq_list([C.coq_str(t) for t in v[2]]) for v in vs])
        terms.append("(%d, %s, %s)" % (n, decl, obs))
        kept.append(src)
        part.sample({"variants": [v[1] for v in vs], "block_variables": n})
    fn = ("fun c => let '(n, rows, obs) := c in list_eqb String.eqb (firstn n (union_declared string \"NilClass\" unify_printed n rows)) obs")
    bad = corr.coq_mismatches(["Model.Blocks"], "nat * list (list string) * list string", fn, terms, chunk=150)
    for i in bad:
        part.mismatches.append({"fn": "Do.unionBlockParameters", "program": kept[i]})
    part.agreed += len(terms) - len(bad)


PARTS = [part_model_tie, part_union_receiver_tie, bpcorr.part_block_params, part_e2e]


def replay(path):
    print(json.dumps(json.load(open(path)), indent=1)[:6000])
    return 0
