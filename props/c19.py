"""C19 — config file names and splitting do not matter."""
import json
import os
import shutil

from lib import common as C
from lib import cfggen as CG
from lib import loadercorr
from lib.flow import Failure

MANIFEST = {
    "text": "Theorems C19_* (Coq) prove that the modelled loader (repaired code) computes, for every method key, exactly the "
            "declarations of that key in file order; that with one class per file every permutation of the load order "
            "yields the same table; and that distributing one class's methods over two files (overload groups kept "
            "together) in either order yields the same table. The loader model (method table, inheritance edges, "
            "BuiltinClasses) is tied to the code by differential execution on generated configuration directories through "
            "the snapshot hook; the property itself is evaluated by running ti under permuted / split configurations.",
    "note": "Trusted: Coq kernel + vm_compute; generated parameter identifiers (GenId), documents and signature articles are "
            "abstracted away in the loader model; inheritance edges are covered by the correspondence and the end-to-end "
            "runs, not by a theorem; overlapping overloads of one method declared in different files are order-dependent "
            "by design (first match) and are kept together by the generators.",
    "technique": "Coq proof (loader = declarative table; permutation/split invariance) over a Gallina model of the loader; "
                 "correspondence by vm_compute on snapshots; metamorphic runs of ti",
}
REQUIRES = ["Model/Loader.v"]
RULE = ("generated class sets (2-4 classes, extends chains, overloads, constants, frames Builtin / Vq, method names colliding "
        "with Object's), written as one file per class in shuffled order and with one class split over 2-3 files; probe "
        "programs call every method name on every class with accepted and rejected arguments; plus the shipped configuration "
        "with shuffled file names against golden programs; non-trivial = more files than classes or an extends chain")
TRUSTED = ["filepath.Glob returns file names in lexical order (the load order)"]
ASSUMPTIONS = ["overloads of one method are declared in one file, in a fixed order"]
PARTIAL = ["inheritance edge lists: no theorem (correspondence + end-to-end only)"]


def part_loader(ctx, part):
    loadercorr.part_loader_corr(ctx, part)


def part_e2e_generated(ctx, part):
    def one(i):
        r = C.rng_for(ctx.pid, ctx.seed, "e2e%d" % i)
        classes = CG.gen_classes(r)
        prog = CG.probe_program(r, classes)
        variants = [("base", CG.to_files(classes))]
        order = list(range(len(classes)))
        r.shuffle(order)
        variants.append(("permuted", CG.to_files([classes[j] for j in order])))
        k = r.randrange(len(classes))
        defs = classes[:k] + classes[k + 1:] + CG.split_class(r, classes[k], r.choice([2, 3]))
        r.shuffle(defs)
        variants.append(("split", CG.to_files(defs)))
        outs = []
        for name, files in variants:
            with C.Workdir(extra_config=files) as wd:
                f = wd.write(prog, "t.rb")
                outs.append((name, files, wd.ti([f]).out + "\n--\n" + wd.ti([f, "-i"]).out))
        return prog, outs

    for prog, outs in C.pmap(one, range(ctx.n(25, 250)), par=6):
        for name, files, out in outs[1:]:
            part.evaluations += 1
            part.nontrivial.add(json.dumps(files, sort_keys=True))
            part.count(name)
            if out == outs[0][2]:
                part.agreed += 1
            else:
                part.failures.append(Failure("config_layout_changes_output", "ti output differs between the base configuration and its %s form" % name,
                                             {"program": prog, "base_files": outs[0][1], "variant_files": files,
                                              "out_base": outs[0][2][:1500], "out_variant": out[:1500]}))
        part.sample({"files_base": sorted(outs[0][1]), "files_split": sorted(outs[2][1]), "program_lines": prog.count("\n")})


def part_e2e_shipped(ctx, part):
    """The shipped configuration under random file names (= random load order) against golden programs."""
    r = ctx.rng("shipped")
    names = sorted(os.listdir(C.SHIPPED_CONFIG))
    progs = r.sample(C.golden_programs(), ctx.n(25, 200))
    perms = []
    for _ in range(ctx.n(2, 5)):
        order = list(names)
        r.shuffle(order)
        perms.append({n: "%03d_%s" % (i, n) for i, n in enumerate(order)})

    def run_cfg(mapping):
        d = C.tempfile.mkdtemp(prefix="wdc_", dir=C.BUILD)
        os.makedirs(os.path.join(d, ".ti-config"))
        for n in names:
            shutil.copy(os.path.join(C.SHIPPED_CONFIG, n), os.path.join(d, ".ti-config", mapping.get(n, n) if mapping else n))
        return d

    dirs = [run_cfg(None)] + [run_cfg(m) for m in perms]
    try:
        def one(p):
            src = open(p, "rb").read()
            outs = []
            for d in dirs:
                fn = os.path.join(d, os.path.basename(p))
                with open(fn, "wb") as fh:
                    fh.write(src)
                outs.append(C.run_ti([os.path.basename(p)], d).out)
            return p, outs
        for p, outs in C.pmap(one, progs, par=6):
            part.evaluations += len(outs) - 1
            part.nontrivial.add(os.path.basename(p))
            if all(o == outs[0] for o in outs[1:]):
                part.agreed += 1
            else:
                j = next(i for i, o in enumerate(outs) if o != outs[0])
                part.failures.append(Failure("config_file_order_changes_output", "ti output for %s changes when the shipped .ti-config files are renamed" % os.path.basename(p),
                                             {"program": os.path.basename(p), "renaming": perms[j - 1], "out_base": outs[0][:1000], "out_variant": outs[j][:1000]}))
        part.sample({"programs": len(progs), "renamings": len(perms), "example_renaming": dict(list(perms[0].items())[:3])})
    finally:
        for d in dirs:
            shutil.rmtree(d, ignore_errors=True)


PARTS = [part_loader, part_e2e_generated, part_e2e_shipped]


def replay(path):
    print(json.dumps(json.load(open(path)), indent=1)[:6000])
    return 0
