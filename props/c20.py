"""C20 — declarations for classes a program never mentions do not affect it."""
import json
import os
import re

from lib import common as C
from lib import cfggen as CG
from lib import rbgen
from lib import loadercorr
from lib.flow import Failure

MANIFEST = {
    "text": "Theorems C20_* (Coq) prove on the loader model that configuration files declaring other classes change no "
            "method lookup of the classes already configured (wherever the new files sort in the load order) and no parent "
            "list, and that the token classifier, which consults BuiltinClasses by name only, classifies every name the "
            "extra classes do not carry as before. The loader model is tied to the code as for C19; the property itself is "
            "evaluated by analysing golden and generated programs with and without generated extra configuration files, "
            "including extra classes that reuse the short name of a user-defined class in another frame.",
    "note": "Trusted: Coq kernel + vm_compute; the evaluator's other consultations of the flat BuiltinClasses list "
            "(superclass resolution, include/extend, completion) are exercised end-to-end only.",
    "technique": "Coq proof (frame rule of the loader, classifier locality) over Gallina models; correspondence by vm_compute; "
                 "metamorphic runs of ti with/without extra configuration",
}
REQUIRES = ["Model/Loader.v", "Model/Parser.v"]
RULE = ("golden programs and generated programs with user classes, each analysed under the shipped configuration and under "
        "the shipped configuration plus 1-3 generated files (frames Builtin / Zq / Zq::Inner; fresh names and names of "
        "user classes of the program placed in another frame); plain and -i output compared; non-trivial = the program "
        "defines a class or calls a configured method")
TRUSTED = []
ASSUMPTIONS = ["a name is `mentioned` when it occurs as a substring of the program text (conservative)"]
PARTIAL = []


def part_loader(ctx, part):
    loadercorr.part_loader_corr(ctx, part, split=False)


def extra_files(r, src):
    user_classes = sorted(set(re.findall(r'\bclass\s+([A-Z][A-Za-z0-9_]*)', src)))
    files = {}
    for i in range(r.randint(1, 3)):
        frame = r.choice(["Builtin", "Zq", "Zq", "Builtin::Zq"])
        if user_classes and frame != "Builtin" and r.random() < 0.5:
            name = r.choice(user_classes)
        else:
            while True:
                name = "Xq" + "".join(r.choice("abcdefgh") for _ in range(4)) + r.choice(["", "Zed"])
                if name not in src and name.lower() not in src.lower():
                    break
        cd = {"frame": frame, "class": name,
              "instance_methods": [CG.gen_method(r, r.choice(["hello", "to_s", "size", "xq_only", "inspect", "value"])) for _ in range(r.randint(1, 3))],
              "class_methods": [{"name": "new", "arguments": [], "return_type": {"type": [name]}}]}
        if r.random() < 0.3:
            cd["extends"] = [r.choice(["Object", "String", "Array"])]
        files["%s_extra%d.json" % (r.choice(["000", "mmm", "zzz"]), i)] = json.dumps(cd)
    return files


def part_e2e(ctx, part):
    r = ctx.rng("e2e")
    progs = []
    for p in r.sample(C.golden_programs(), ctx.n(30, 250)):
        progs.append(("golden:" + os.path.basename(p), open(p, encoding="utf-8", errors="replace").read()))
    for i in range(ctx.n(30, 250)):
        rr = C.rng_for(ctx.pid, ctx.seed, "gen%d" % i)
        prog, _ = rbgen.gen_program(rr, size=rr.randint(6, 14), features=("class", "module", "module", "def", "assign", "dbtp", "cond", "error"))
        progs.append(("generated:%d" % i, rbgen.render(prog)))

    def one(item):
        name, src = item
        rr = C.rng_for(ctx.pid, ctx.seed, "x" + name)
        extra = extra_files(rr, src)
        outs = []
        for cfg in (None, extra):
            with C.Workdir(extra_config=cfg) as wd:
                f = wd.write(src, "t.rb")
                outs.append(wd.ti([f]).out + "\n--\n" + wd.ti([f, "-i"]).out)
        return name, src, extra, outs

    for name, src, extra, outs in C.pmap(one, progs, par=6):
        part.evaluations += 1
        if "class " in src or "." in src:
            part.nontrivial.add(name)
        part.count("golden" if name.startswith("golden") else "generated")
        if "timeout" in outs[0].split("\n")[:1] or "timeout" in outs[1].split("\n")[:1]:
            part.count("timeout_seen")
            continue
        if outs[0] == outs[1]:
            part.agreed += 1
        else:
            part.failures.append(Failure("extra_config_changes_output", "ti output for %s changes when unrelated classes are configured" % name,
                                         {"program": src, "extra_files": extra, "out_without": outs[0][:1500], "out_with": outs[1][:1500]}))
        part.sample({"program": name, "extra": [json.loads(v)["frame"] + "::" + json.loads(v)["class"] for v in extra.values()]})


PARTS = [part_loader, part_e2e]


def replay(path):
    print(json.dumps(json.load(open(path)), indent=1)[:6000])
    return 0
