"""C06 — layout changes only shift reported rows."""
import json
import os
import re

from lib import common as C
from lib import rbgen
from lib.flow import Failure
from props import c03

MANIFEST = {
    "text": "Theorems C06_row_accounting, C06_stream_rows, C06_row_closed_form, C06_rows_every_text (Coq): on the token-layer model of the parser (tied to the code by C03's "
            "correspondence, which compares Row and ErrorRow after every Read) each Read moves the reported row by exactly "
            "the line breaks the token stands for — 1 for a line-break token, the breaks inside a freshly lexed string "
            "literal, 0 for a token replayed after Unget — so a row is 1 + the line breaks consumed (repaired code); lifted by induction to the whole token stream "
            "(read_all, the function the correspondence runs): for every text and every number of Reads the row after the "
            "k-th Read is the start row plus the line breaks of the first k tokens, and for every source text the stream exists and satisfies this from row 1 "
            "(C06_rows_every_text, composing C03's totality). That "
            "an extra line-break token at a statement boundary changes nothing else is the evaluator's business and is "
            "evaluated end-to-end: blank / comment lines inserted at every kind of statement boundary of generated programs, "
            "string literals widened by line breaks (also one in each of 15 positions the evaluator reads or skips: index on an "
            "untyped / unknown / union receiver, lambda and block bodies, hash key, call arguments, defaults, when clauses, ...), "
            "final newline added / removed.",
    "note": "Partial: the evaluator's insensitivity to extra line-break tokens is exploration, not proof.",
    "technique": "Coq proof (row accounting of parser.Read, lifted to every token stream by induction) over the lexer/parser model; correspondence by vm_compute (C03); "
                 "metamorphic layout edits run through ti",
}
REQUIRES = ["Model/Parser.v"]
RULE = ("generated programs (all statement kinds, nested bodies); edits: 1-3 blank or comment lines at a random statement "
        "boundary of any nesting level, a line break added inside a random string literal, final newline removed / doubled / "
        "removed with a trailing blank; golden programs: final-newline edits; outputs compared after remapping rows; "
        "non-trivial = the program prints at least one line after the edit position")
TRUSTED = []
ASSUMPTIONS = ["comment lines inserted do not contain ti-doc: / ti-for-llm: markers"]
PARTIAL = ["evaluator insensitivity to extra newline tokens: exploration only"]


def remap(out, at_row, delta):
    """Rows >= at_row move by delta."""
    res = []
    for l in out.split("\n"):
        m = re.match(r'^(@?t\.rb:::)(\d+)(:::.*)$', l)
        if m and int(m.group(2)) >= at_row:
            l = "%s%d%s" % (m.group(1), int(m.group(2)) + delta, m.group(3))
        res.append(l)
    return "\n".join(res)


def run_pair(src_a, src_b):
    outs = []
    for src in (src_a, src_b):
        with C.Workdir() as wd:
            f = wd.write(src, "t.rb")
            outs.append((wd.ti([f]), wd.ti([f, "-i"])))
    return outs


def part_generated(ctx, part):
    def one(i):
        r = C.rng_for(ctx.pid, ctx.seed, "lay%d" % i)
        prog, _ = rbgen.gen_program(r, size=r.randint(5, 12))
        lines, bounds = rbgen.render_with_boundaries(prog)
        lines = [rbgen.subst(l) for l in lines]
        base = "\n".join(lines) + "\n"
        kind = r.choice(["blank", "comment", "string", "string", "eof"])
        if kind in ("blank", "comment"):
            k = r.choice(bounds)
            m = r.randint(1, 3)
            ins = [""] * m if kind == "blank" else ["  # note %d" % j for j in range(m)]
            edited = "\n".join(lines[:k] + ins + lines[k:]) + "\n"
            return kind, base, edited, k + 1, m
        if kind == "string":
            cands = [(i_, mm) for i_, l in enumerate(lines) for mm in re.finditer(r'"(s|abc|key)"', l)]
            if not cands:
                return None
            li, mm = r.choice(cands)
            l = lines[li]
            new = l[:mm.end() - 1] + "\n" + l[mm.end() - 1:]
            edited = "\n".join(lines[:li] + [new] + lines[li + 1:]) + "\n"
            return kind, base, edited, li + 2, 1         # rows after the literal's first line move by one
        variant = r.choice(["strip", "double", "strip_blank"])
        edited = {"strip": base[:-1], "double": base + "\n", "strip_blank": base[:-1] + " "}[variant]
        return "eof:" + variant, base, edited, 10 ** 9, 0

    items = [x for x in C.pmap(lambda i: (lambda t: (t, run_pair(t[1], t[2])) if t else None)(one(i)), range(ctx.n(40, 400)), par=6) if x]
    for (kind, base, edited, at_row, delta), outs in items:
        for j, flag in enumerate(("plain", "-i")):
            a, b = outs[0][j], outs[1][j]
            part.evaluations += 1
            part.count(kind)
            if a.timeout or b.timeout or a.crashed or b.crashed:
                part.count("crash_or_timeout_seen")
                continue
            want = remap(a.out, at_row, delta)
            if any(int(m) >= at_row - 1 for m in re.findall(r':::(\d+):::', a.out)) or kind.startswith("eof"):
                part.nontrivial.add(base + kind + str(at_row) + flag)
            # a string literal that now spans two lines: the statement containing it may be reported on either of its rows
            ok = want == b.out
            if not ok and kind == "string":
                # diagnostics of the statement that contains the widened literal may stay on its first row or move
                # to its last one: both readings of "located after the change" are accepted
                ok = remap(a.out, at_row - 1, delta) == b.out
            if ok:
                part.agreed += 1
            else:
                part.failures.append(Failure("layout_changes_output", "a %s edit changes more than the rows (%s)" % (kind, flag),
                                             {"kind": kind, "base": base, "edited": edited, "at_row": at_row, "delta": delta,
                                              "expected": want, "got": b.out}))
        part.sample({"kind": kind, "at_row": at_row if at_row < 10 ** 8 else None, "delta": delta, "program_lines": base.count("\n")})


# a string literal in every kind of position the evaluator reads or skips over (Read vs the Skip*/SkipToTargetToken paths of
# parser/read.go): widening it must move the later rows like anywhere else
STRING_CONTEXTS = [
    ("index_on_untyped_param", ["def pick(h)", "  v = h[LIT]", "  dbtp v", "  1 + \"a\"", "end"]),
    ("index_on_unknown", ["z = nothing_here", "w = z[LIT]", "dbtp w"]),
    ("index_on_union", ["u = [1, \"a\"].sample", "w = u[LIT]", "dbtp w"]),
    ("index_in_lambda", ["pr = ->(a) { a[LIT] }", "dbtp pr"]),
    ("index_in_block", ["[1].each do |i|", "  k = i[LIT]", "end"]),
    ("hash_key", ["h = {LIT => 1}", "dbtp h"]),
    ("call_argument", ["puts LIT", "puts(LIT)"]),
    ("unknown_call_argument", ["no_such_method(LIT, 2)", "q = 2"]),
    ("array_element", ["a = [LIT, \"other\"]", "dbtp a"]),
    ("default_argument", ["def g(s = LIT)", "  s", "end", "dbtp g"]),
    ("when_clause", ["c = \"k\"", "r = case c", "when LIT", "  1", "else", "  2", "end", "dbtp r"]),
    ("modifier_if", ["m = LIT if true", "dbtp m"]),
    ("method_receiver", ["t = LIT.upcase", "dbtp t"]),
    ("assignment", ["s = LIT", "dbtp s"]),
    ("return_value", ["def rv", "  return LIT", "end", "dbtp rv"]),
]


def part_string_contexts(ctx, part):
    def one(i):
        r = C.rng_for(ctx.pid, ctx.seed, "strctx%d" % i)
        name, body = STRING_CONTEXTS[i % len(STRING_CONTEXTS)]
        pre = ["p%d = %d" % (j, j) for j in range(r.randint(0, 2))]
        post = ["n = 1", "dbtp n", "n + \"b\"", "def later(x)", "  x", "end", "later(1)"]
        lit = r.choice(["key", "s", "abc def"])
        m = r.randint(1, 3)
        pos = r.randint(0, len(lit))
        wide = lit[:pos] + "\n" * m + lit[pos:]
        li = next(k for k, l in enumerate(body) if "LIT" in l)
        base_lines = pre + [l.replace("LIT", '"%s"' % lit) for l in body] + post
        ed_body = list(body)
        ed_body[li] = ed_body[li].replace("LIT", '"%s"' % wide, 1).replace("LIT", '"%s"' % lit)
        ed_lines = pre + [l.replace("LIT", '"%s"' % lit) for l in ed_body] + post
        return name, "\n".join(base_lines) + "\n", "\n".join(ed_lines) + "\n", len(pre) + li + 2, m

    items = C.pmap(lambda i: (lambda t: (t, run_pair(t[1], t[2])))(one(i)), range(ctx.n(45, 300)), par=6)
    for (name, base, edited, at_row, delta), outs in items:
        for j, flag in enumerate(("plain", "-i")):
            a, b = outs[0][j], outs[1][j]
            part.evaluations += 1
            part.count("string_in_" + name)
            if a.timeout or b.timeout or a.crashed or b.crashed:
                part.count("crash_or_timeout_seen")
                continue
            if any(int(x) >= at_row for x in re.findall(r':::(\d+):::', a.out)):
                part.nontrivial.add(base + flag)
            # the statement that holds the literal may be reported on its first row or on its last one
            ok = remap(a.out, at_row, delta) == b.out or remap(a.out, at_row - 1, delta) == b.out
            if ok:
                part.agreed += 1
            else:
                part.failures.append(Failure("layout_changes_output", "widening a string literal (%s) changes more than the rows (%s)" % (name, flag),
                                             {"kind": "string:" + name, "base": base, "edited": edited, "at_row": at_row, "delta": delta,
                                              "expected": remap(a.out, at_row, delta), "got": b.out}))
        part.sample({"kind": "string:" + name, "at_row": at_row, "delta": delta, "program_lines": base.count("\n")})


def part_golden_eof(ctx, part):
    r = ctx.rng("eof")
    progs = r.sample(C.golden_programs(), ctx.n(60, 585))

    def one(p):
        src = open(p, "rb").read()
        stripped = src.rstrip(b"\n")
        variants = [stripped, stripped + b"\n", stripped + b"\n\n", stripped + b" ", stripped + b" \n"]
        outs = []
        with C.Workdir() as wd:
            for v in variants:
                f = wd.write(v, "t.rb")
                outs.append((wd.ti([f]).out, wd.ti([f, "-i"]).out))
        return p, outs

    for p, outs in C.pmap(one, progs, par=8):
        part.evaluations += len(outs)
        part.nontrivial.add(os.path.basename(p))
        if any("timeout" in o[0] for o in outs):
            part.count("timeout_seen")
            continue
        if all(o == outs[0] for o in outs[1:]):
            part.agreed += 1
        else:
            part.failures.append(Failure("final_newline_changes_output", "the number of trailing newlines changes the output of %s" % os.path.basename(p),
                                         {"program": os.path.basename(p), "outs": [o[0][:600] for o in outs]}))
    part.sample({"programs": len(progs)})


PARTS = [part_generated, part_string_contexts, part_golden_eof]


def replay(path):
    print(json.dumps(json.load(open(path)), indent=1)[:6000])
    return 0
