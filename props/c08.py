"""C08 — no false alarms on calls the configuration certainly accepts."""
import json

from lib import argscorr, calle2e, callscen

MANIFEST = {
    "text": "Theorems C08_* (Coq) prove that the repaired checkArgType accepts every argument all of whose possible "
            "classes the declaration admits (union arguments included), that a positional call with an accepted count "
            "whose arguments all fit yields no error from checkAndPropagateArgs in any round, and that the end-to-end "
            "spec predicate `certainly_fits` implies acceptance. Tie and end-to-end evaluation as for C07, restricted "
            "to rows before the first definite error; scenario families add calls of the shipped configuration in other "
            "layouts (operator at the end of a line, leading-dot chains, `rescue` modifier, `;`-separated statements, one-line "
            "blocks), none of whose lines may carry a diagnostic.",
    "note": "Trusted: as C07.",
    "technique": "Coq proof over Gallina models of checkArgType/checkAndPropagateArgs; correspondence by vm_compute; "
                 "spec predicate evaluated in Coq against ti end-to-end",
}
REQUIRES = ["Model/Args.v", "Model/CallSpec.v", "Model/Config.v"]
RULE = ("as C07, with programs biased to valid calls (97%) so that most rows lie before the first definite error; "
        "non-trivial = a call the spec classifies as certainly fitting, before the first definite error")
TRUSTED = ["argument types of the generated expressions are known by construction (literals, ternaries)"]
ASSUMPTIONS = ["a certainly-fitting call has an accepted count and every possible class of every argument admitted"]
PARTIAL = ["C08_pinned_refuted: Union<Integer String> rejected for Integer|String|Symbol by the pre-fix code (fixed)"]
PARTS = [argscorr.part_check_arg_type, argscorr.part_check_args, calle2e.part_e2e("C08"), callscen.part_scenarios("C08")]


def replay(path):
    print(json.dumps(json.load(open(path)), indent=1)[:6000])
    return 0
