"""C21 — equivalent type notations in config mean the same thing."""
import json
import os

from lib import common as C
from lib import corr
from lib.flow import Failure

MANIFEST = {
    "text": "Theorems C21_* (Coq, closed under the global context) state each notation equivalence as equality of the "
            "parsed base.T for all well-formed T (unbounded), over a faithful model of parseTypeString / parseArguments / "
            "parseReturnType whose name table is regenerated from source on every run; the model is tied to the code by "
            "differential execution on generated notation strings, and the property's own predicate (both notations parse "
            "identically; ti prints identical output under both configurations) is evaluated on the implementation.",
    "note": "Trusted: Coq kernel + vm_compute; translator harness/cmd/gen; encoding/json decoding (glue); TrimSpace modelled "
            "for ASCII white space; downstream code reads declarations only through the projected fields of base.T.",
    "technique": "Coq proof over a hand-written Gallina model + generated tables; correspondence by vm_compute vs real functions",
}
REQUIRES = ["Model/Config.v", "Generated.v"]
VARIANT = "fixed_cfg"     # the model variant the current tree is expected to match (after the fix)
RULE = ("type strings / argument objects / return objects generated from the notation grammar "
        "(atoms = every name in ConvertToBuiltinT's table + object and namespaced names; prefixes ?,*; "
        "brackets; | with spaces; malformed forms); non-trivial = uses at least one compact-notation "
        "construct; distinct = distinct input text")
TRUSTED = ["encoding/json decoding of .ti-config is glue exercised end-to-end, not modelled",
           "strings.TrimSpace modelled for ASCII white space only"]
ASSUMPTIONS = ["downstream code reads a parsed declaration only through the fields of base.T that the "
               "verif projection keeps (base/verif_dump.go)"]
PARTIAL = ["C21_opt_arg_pinned_refuted / C21_ast_arg_pinned_refuted: witnesses T=\"Int|String\" against the "
           "pre-fix parser (fixed by /repo commit 'fix: \"?T\"/\"*T\" argument notation …')"]
TABLE_OBLIGATIONS = ["C21_named_arrays, C21_int_integer, C21_optional_names, C21_default_names are re-proved by "
                     "vm_compute over the regenerated builtin_table"]


def atoms():
    g = json.load(open(os.path.join(C.BUILD, "gen.json")))
    names = [n for n, _ in g["builtin_table"]]
    return names + ["K", "Foo", "Ns::K", "A::B::C", "Qq"]


def gen_type(r, depth=0, allow_prefix=True):
    """Returns a type string from the notation grammar."""
    A = atoms()
    x = r.random()
    if depth > 2 or x < 0.35:
        return r.choice(A)
    if x < 0.5 and allow_prefix:
        return "?" + gen_type(r, depth + 1)
    if x < 0.6 and allow_prefix:
        return "*" + gen_type(r, depth + 1)
    if x < 0.75:
        return "[" + gen_type(r, depth + 1) + "]"
    n = r.randint(2, 4)
    sep = r.choice(["|", "|", " | ", "| ", " |"])
    return sep.join(gen_type(r, depth + 1, allow_prefix=False) for _ in range(n))


MALFORMED = ["", "?", "*", "[", "]", "[]", "[ ]", "|", "||", "A|", "|A", "A||B", "?*Int", "*?Int", "??Int",
             "[Int]|[String]", "[Int|String]", "?[Int]", "*[Int]", "[?Int]", "[*Int]", " Int", "Int ",
             "Int |String", "[[Int]]", "[Int", "Int]", "::", "A::", "::A", "?A::B", "*A::B", "A::B|C",
             "Integer", "?Integer", "[Integer]", "\tInt|\tString", "Int|String|", "x", "nil", "?|", "*|", "[|]"]


def part_parse_type(ctx, part):
    r = ctx.rng("ptype")
    n = ctx.n(600, 6000)
    strs = list(MALFORMED) + atoms()
    while len(strs) < n:
        strs.append(gen_type(r))
    seen, uniq = set(), []
    for s in strs:
        if s not in seen:
            seen.add(s)
            uniq.append(s)
    outs = C.vh_batch([{"op": "parse_type", "s": s} for s in uniq])
    terms = []
    for s, o in zip(uniq, outs):
        part.evaluations += 1
        if any(ch in s for ch in "?*[|"):
            part.nontrivial.add(s)
        part.count("len<=3" if len(s) <= 3 else "len<=12" if len(s) <= 12 else "len>12")
        part.count("malformed" if s in MALFORMED else "grammar")
        if "panic" in o:
            part.failures.append(Failure("parse_type_panic", "parseTypeString panics on %r" % s, {"s": s}))
            continue
        terms.append("(%s, %s)" % (C.coq_str(s), C.coq_ty(o["t"])))
        part.sample({"input": s, "impl_tag": o["t"]["tag"]})
    bad = corr.coq_mismatches(["Model.Config"], "string * ty",
                              "fun c => ty_eqb (parse_type_string (fst c)) (snd c)", terms)
    ok_inputs = [s for s, o in zip(uniq, outs) if "panic" not in o]
    for i in bad:
        part.mismatches.append({"fn": "parseTypeString", "input": ok_inputs[i]})
    part.agreed = len(terms) - len(bad)


def gen_jarg(r):
    t = r.random()
    if t < 0.1:
        types = []
    elif t < 0.7:
        types = [gen_type(r)] if r.random() < 0.85 else [r.choice(MALFORMED)]
    else:
        types = [gen_type(r, allow_prefix=r.random() < 0.3) for _ in range(r.randint(2, 3))]
    return {"types": types, "key": r.choice(["", "", "", "k:", "name:", "x"]),
            "ast": r.random() < 0.2, "def": r.random() < 0.3}


def jarg_json(a):
    d = {}
    if len(a["types"]) == 1:
        d["type"] = a["types"][0]
    elif a["types"]:
        d["type"] = a["types"]
    if a["key"]:
        d["key"] = a["key"]
    if a["ast"]:
        d["is_asterisk"] = True
    if a["def"]:
        d["is_default"] = True
    return d


def coq_jarg(a):
    return "(mkarg %s %s %s %s)" % (C.coq_list([C.coq_str(s) for s in a["types"]]), C.coq_str(a["key"]),
                                    C.coq_bool(a["ast"]), C.coq_bool(a["def"]))


def part_parse_args(ctx, part):
    r = ctx.rng("pargs")
    n = ctx.n(500, 5000)
    lists = [[gen_jarg(r) for _ in range(r.choice([1, 1, 2, 3, 4]))] for _ in range(n)]
    # the pinned refutation witnesses always run first
    lists = [[{"types": ["?Int|String"], "key": "", "ast": False, "def": False}],
             [{"types": ["*Int|String"], "key": "", "ast": False, "def": False}],
             [{"types": ["?[Int]"], "key": "k:", "ast": False, "def": False}],
             [{"types": ["?Int"], "key": "", "ast": False, "def": False},
              {"types": ["String"], "key": "", "ast": False, "def": False},
              {"types": ["Int"], "key": "k:", "ast": False, "def": False}]] + lists
    outs = C.vh_batch([{"op": "parse_args", "args": [jarg_json(a) for a in l]} for l in lists])
    terms, kept = [], []
    for l, o in zip(lists, outs):
        part.evaluations += 1
        key = json.dumps(l, sort_keys=True)
        if any(any(any(ch in s for ch in "?*[|") for s in a["types"]) or len(a["types"]) > 1 for a in l):
            part.nontrivial.add(key)
        part.count("args=%d" % len(l))
        if "panic" in o or "error" in o:
            part.failures.append(Failure("parse_args_panic", "parseArguments fails on %s: %s" % (key, o), {"args": l}))
            continue
        terms.append("(%s, %s)" % (C.coq_list([coq_jarg(a) for a in l]), C.coq_list([C.coq_ty(t) for t in o["ts"]])))
        kept.append(l)
        part.sample({"arguments": [jarg_json(a) for a in l], "impl_tags": [t["tag"] for t in o["ts"]]})
    defs = "From RT Require Import Proofs.C21P.\n"
    bad = corr.coq_mismatches(["Model.Config"], "list jarg * list ty",
                              "fun c => list_eqb ty_eqb (parse_arguments %s (fst c)) (snd c)" % VARIANT, terms, defs=defs)
    for i in bad:
        part.mismatches.append({"fn": "parseArguments", "input": kept[i], "variant": VARIANT})
    part.agreed = len(terms) - len(bad)


def part_parse_ret(ctx, part):
    r = ctx.rng("pret")
    n = ctx.n(300, 3000)
    rets = []
    for _ in range(n):
        k = r.random()
        types = [] if k < 0.1 else [gen_type(r)] if k < 0.7 else [gen_type(r, allow_prefix=False) for _ in range(r.randint(2, 3))]
        rets.append({"types": types, "cond": r.random() < 0.2, "des": r.random() < 0.2, "cap": r.random() < 0.1})
    reqs = []
    for x in rets:
        d = {}
        if len(x["types"]) == 1:
            d["type"] = x["types"][0]
        elif x["types"]:
            d["type"] = x["types"]
        if x["cond"]:
            d["is_conditional"] = True
        if x["des"]:
            d["is_destructive"] = True
        if x["cap"]:
            d["is_capture_owner"] = True
        reqs.append({"op": "parse_ret", "ret": d})
    outs = C.vh_batch(reqs)
    terms, kept = [], []
    for x, o in zip(rets, outs):
        part.evaluations += 1
        if any(any(ch in s for ch in "?*[|") for s in x["types"]) or len(x["types"]) > 1:
            part.nontrivial.add(json.dumps(x, sort_keys=True))
        if "panic" in o or "error" in o:
            part.failures.append(Failure("parse_ret_panic", "parseReturnType fails on %s" % x, {"ret": x}))
            continue
        terms.append("(mkret %s %s %s %s, %s)" % (C.coq_list([C.coq_str(s) for s in x["types"]]), C.coq_bool(x["cond"]),
                                                  C.coq_bool(x["des"]), C.coq_bool(x["cap"]), C.coq_ty(o["t"])))
        kept.append(x)
        part.sample({"return_type": x})
    defs = "From RT Require Import Proofs.C21P.\n"
    bad = corr.coq_mismatches(["Model.Config"], "jret * ty",
                              "fun c => ty_eqb (parse_return_type (fst c)) (snd c)", terms, defs=defs)
    for i in bad:
        part.mismatches.append({"fn": "parseReturnType", "input": kept[i]})
    part.agreed = len(terms) - len(bad)


# ---- the property's own predicate on the implementation ------------------------------------

def notation_pairs(r, n):
    """(kind, compact JSON, long JSON) triples that the property declares interchangeable."""
    A = [a for a in atoms() if "::" not in a]
    plainT = lambda: r.choice([r.choice(A), "%s|%s" % (r.choice(A), r.choice(A)), "[%s]" % r.choice(A),
                               "[%s|%s]" % (r.choice(A), r.choice(A)), "%s|[%s]" % (r.choice(A), r.choice(A))])
    pairs = []
    for _ in range(n):
        k = r.randrange(9)
        if k == 0:
            parts = [r.choice(A) for _ in range(r.randint(2, 4))]
            pairs.append(("ret A|B", {"ret": {"type": "|".join(parts)}}, {"ret": {"type": parts}}))
        elif k == 1:
            parts = [r.choice(A) for _ in range(r.randint(2, 4))]
            pairs.append(("arg A|B", {"arg": {"type": "|".join(parts)}}, {"arg": {"type": parts}}))
        elif k == 2:
            T = plainT()
            pairs.append(("ret ?T", {"ret": {"type": "?" + T}}, {"ret": {"type": [T, "NilClass"]}}))
        elif k == 3:
            T = plainT()
            pairs.append(("arg ?T", {"arg": {"type": "?" + T}}, {"arg": {"type": T, "is_default": True}}))
        elif k == 4:
            T = plainT()
            pairs.append(("arg *T", {"arg": {"type": "*" + T}}, {"arg": {"type": T, "is_asterisk": True}}))
        elif k == 5:
            X = r.choice(["String", "Int", "Float"])
            pairs.append(("ret [T]", {"ret": {"type": "[%s]" % X}}, {"ret": {"type": X + "Array"}}))
        elif k == 6:
            ctxs = r.choice(["%s", "?%s", "[%s]", "%s|String", "Float|%s"])
            pairs.append(("Int/Integer", {"ret": {"type": ctxs % "Int"}}, {"ret": {"type": ctxs % "Integer"}}))
        elif k == 7:
            X = r.choice(["String", "Int", "Float"])
            pairs.append(("OptionalX", {"ret": {"type": "Optional" + X}}, {"ret": {"type": [X, "NilClass"]}}))
        else:
            X = r.choice(["Bool", "Block", "Untyped", "String", "Int", "Float"])
            pairs.append(("DefaultX", {"arg": {"type": "Default" + X}}, {"arg": {"type": X, "is_default": True}}))
    return pairs


def part_impl_pairs(ctx, part):
    """Implementation-side predicate: both notations parse to the same T (all fields); an argument pair is
    embedded in a random list of other arguments, and the whole lists must parse identically."""
    r = ctx.rng("pairs")
    pairs = notation_pairs(r, ctx.n(400, 4000))
    reqs, shown = [], []
    for kind, a, b in pairs:
        if "ret" in a:
            reqs.append({"op": "parse_ret", "ret": a["ret"]})
            reqs.append({"op": "parse_ret", "ret": b["ret"]})
            shown.append((a, b))
        else:
            pre = [jarg_json(gen_jarg(r)) for _ in range(r.choice([0, 0, 1, 2]))]
            post = [jarg_json(gen_jarg(r)) for _ in range(r.choice([0, 1, 1, 2]))]
            la, lb = pre + [a["arg"]] + post, pre + [b["arg"]] + post
            reqs.append({"op": "parse_args", "args": la})
            reqs.append({"op": "parse_args", "args": lb})
            shown.append(({"args": la}, {"args": lb}))
    outs = C.vh_batch(reqs)
    for i, (kind, a, b) in enumerate(pairs):
        oa, ob = outs[2 * i], outs[2 * i + 1]
        sa, sb = shown[i]
        part.evaluations += 1
        part.count(kind)
        part.nontrivial.add(json.dumps([sa, sb], sort_keys=True))
        if oa == ob and "panic" not in oa:
            part.agreed += 1
        else:
            part.failures.append(Failure("notation_pair_differs",
                                         "%s: %s and %s parse to different types" % (kind, json.dumps(sa), json.dumps(sb)),
                                         {"kind": kind, "compact": sa, "long": sb}))
        part.sample({"kind": kind, "compact": sa, "long": sb})


EXTRA_ARGS = [[], [{"type": "String"}], [], [{"type": "Int", "key": "k:"}], [{"type": "Symbol"}, {"type": "Int", "key": "z:"}]]
ARGS_POOL = ["", "1", '"s"', ":s", "1.5", "nil", "[1]", '["s"]', "1, 2", '1, "s"', "true", "k", '1, "s", k: 2', '"s", :a, z: 1', "1, k: 1", '"a", "b"']


def part_e2e(ctx, part):
    """End-to-end: one configuration written once per notation; ti's output must be identical."""
    r = ctx.rng("e2e")
    rounds = ctx.n(6, 40)
    for rd in range(rounds):
        pairs = notation_pairs(r, 10)
        ms_a, ms_b, lines = [], [], ["k = K.new"]
        for i, (kind, a, b) in enumerate(pairs):
            name = "m%d" % i
            for x, ms in ((a, ms_a), (b, ms_b)):
                if "ret" in x:
                    ms.append({"name": name, "arguments": [], "return_type": x["ret"]})
                else:
                    extra = EXTRA_ARGS[i % len(EXTRA_ARGS)]
                    ms.append({"name": name, "arguments": [x["arg"]] + extra, "return_type": {"type": "Int"}})
            if "ret" in a:
                lines.append("dbtp k.%s" % name)
                lines.append("k.%s(1)" % name)
            else:
                for av in r.sample(ARGS_POOL, 5):
                    lines.append("dbtp k.%s(%s)" % (name, av))
        prog = "\n".join(lines) + "\n"
        outs = []
        for ms in (ms_a, ms_b):
            cfg = {"frame": "Builtin", "class": "K", "instance_methods": ms,
                   "class_methods": [{"name": "new", "arguments": [], "return_type": {"type": ["K"]}}]}
            with C.Workdir(extra_config={"zz_k.json": json.dumps(cfg)}) as wd:
                f = wd.write(prog, "t.rb")
                outs.append([wd.ti([f]).out, wd.ti([f, "-i"]).out])
        part.evaluations += 1
        part.nontrivial.add(prog + json.dumps(ms_a))
        if outs[0] == outs[1]:
            part.agreed += 1
        else:
            part.failures.append(Failure("e2e_notation_differs", "ti output differs between compact and long notation",
                                         {"compact_methods": ms_a, "long_methods": ms_b, "program": prog,
                                          "out_compact": outs[0], "out_long": outs[1]}))
        part.sample({"methods": len(ms_a), "program_lines": len(lines), "first_output_line": outs[0][0].split("\n")[0]})


PARTS = [part_parse_type, part_parse_args, part_parse_ret, part_impl_pairs, part_e2e]


def search(ctx, part, mismatches):
    """Proof or tie broken: look for a concrete failing input of the property itself.
    The implementation-side parts already evaluate the property's predicate on fresh batches; here the
    stored refutation witnesses and the disagreeing inputs are tried as notation pairs."""
    cands = [("arg ?T", {"arg": {"type": "?Int|String"}}, {"arg": {"type": "Int|String", "is_default": True}}),
             ("arg *T", {"arg": {"type": "*Int|String"}}, {"arg": {"type": "Int|String", "is_asterisk": True}})]
    for m in mismatches:
        inp = m.get("input")
        if isinstance(inp, dict) and inp.get("types") and len(inp["types"]) == 1:
            s = inp["types"][0]
            if s[:1] == "?":
                cands.append(("arg ?T", {"arg": {"type": s}}, {"arg": {"type": s[1:], "is_default": True}}))
            if s[:1] == "*":
                cands.append(("arg *T", {"arg": {"type": s}}, {"arg": {"type": s[1:], "is_asterisk": True}}))
    reqs = []
    for kind, a, b in cands:
        for x in (a, b):
            reqs.append({"op": "parse_args", "args": [x["arg"]]})
    outs = C.vh_batch(reqs)
    for i, (kind, a, b) in enumerate(cands):
        part.evaluations += 1
        if outs[2 * i] != outs[2 * i + 1]:
            part.failures.append(Failure("notation_pair_differs", "%s: %s vs %s parse differently" % (kind, a, b),
                                         {"kind": kind, "compact": a, "long": b}))


def replay(path):
    d = json.load(open(path))
    print(json.dumps(d, indent=1)[:4000])
    return 0
