"""C09 — inferred types agree with literals and declared return types."""
import json
import re

from lib import common as C
from lib import condcorr
from lib import corr
from lib import execcorr
from lib import infergen
from lib import tygen as G
from lib.flow import Failure

MANIFEST = {
    "text": "Theorems C09_* (Coq): the two rules of the reference model that do not hold by definition — a hash lookup with a "
            "literal key has the type stored last under that key, for every hash built by a literal and by h[k] = v in any "
            "order and for every stored type (NilClass included); the union of scalar types (array elements, ternaries, "
            "growth) has one variant per distinct class in order of first occurrence, through the model of "
            "T.AppendVariant. The reading `a stored nil is a missing key` is refuted. The resolution of declared return types "
            "is proved on a model of calculateExecutionType: Self is the receiver, Unify the union of its element types, "
            "OptionalUnify the same with NilClass, Argument nil / the argument / the array of the arguments, SelfArray and "
            "KeyValueArray arrays of the receiver's element / value types, a union return every variant resolved and unified "
            "(C09_return_*); which alternative of a conditional return type a call gets is modelled too (conditioningMethodReturn: "
            "by the number of non-block arguments under an optional parameter, by the first argument of the parameter's kind "
            "otherwise; C09_conditional_return_*), the tie comparing the picked alternative and the panic when the code indexes "
            "past the alternatives. Tie: calculateExecutionType is called through a hook on generated receivers, return types "
            "(special types, unions and arrays of them, plain types, `new`), arguments and block values, and both the resolved "
            "type and the receiver afterwards are compared with the model (the receiver must be untouched); T.AppendVariant, "
            "T.UnifyVariants, base.TypeToString and HashReference over AppendHashVariant are executed through the harness on "
            "generated types and compared with the model by vm_compute; end to end, generated straight-line programs "
            "(literals, flat and nested array literals with and without spaces, hash literals, lookups, h[k] = v, "
            "reassignment, push / <<, first, builtin calls, hashes of arrays before and after operations that unify their "
            "values) are compared with the reference rules at every dbtp.",
    "note": "Trusted: Coq kernel + vm_compute; lib/infergen.py (the reference rules as the property states them). Literals and "
            "variables are definitional in the reference model; declared return types are exercised for a handful of "
            "methods of the shipped configuration.",
    "technique": "Coq proof (hash lookup over AppendHashVariant; union of scalars through AppendVariant; resolution of special return types); correspondence by "
                 "vm_compute through the harness; end-to-end comparison with the reference rules",
}
REQUIRES = ["Model/Infer.v", "Model/TyOps.v", "Model/ExecType.v", "Model/CondReturn.v"]
RULE = ("hooks: types of depth <= 2 from 19 scalar shapes, arrays, hashes, unions; hashes of 0-5 pairs over 5 keys with repeated "
        "keys and nil values; end to end: 12-step programs; non-trivial = a nested literal, a repeated key or a growth step")
TRUSTED = []
ASSUMPTIONS = []
PARTIAL = ["OWNER returns and return types written as a namespace path are not modelled",
           "a Float literal written with an exponent and no fraction (1e3) is lexed as the Integer before the `e` (kept finding; not generated)", "nested hashes and arrays of hashes: exploration only"]


def part_tyops_corr(ctx, part):
    r = ctx.rng("tyops")
    pairs = [(G.gen_ty(r, common=True) if r.random() < 0.6 else G.gen_union_of_scalars(r), G.gen_ty(r, common=True)) for _ in range(ctx.n(250, 2500))]
    outs = C.vh_batch([{"op": "append_variant", "t": t, "v": v} for t, v in pairs] +
                      [{"op": "unify", "t": t} for t, _ in pairs] + [{"op": "type_to_string", "t": t} for t, _ in pairs])
    n = len(pairs)
    terms = []
    for i, (t, v) in enumerate(pairs):
        part.evaluations += 3
        a, u, s = outs[i], outs[n + i], outs[2 * n + i]
        if "t" not in a or "t" not in u or "s" not in s:
            part.mismatches.append({"fn": "AppendVariant/UnifyVariants/TypeToString", "t": t, "v": v, "answers": [a, u, s]})
            continue
        if t["vars"]:
            part.nontrivial.add(json.dumps([t, v], sort_keys=True))
        terms.append("(%s, %s, %s, %s, %s)" % (C.coq_ty(t), C.coq_ty(v), C.coq_ty(a["t"]), C.coq_ty(u["t"]), C.coq_str(s["s"])))
        part.sample({"t": s["s"]})
    bad = corr.coq_mismatches(["Model.TyOps"], "ty * ty * ty * ty * string",
                              "fun c => let '(t, v, a, u, s) := c in ty_eqb (AppendVariant t v) a && ty_eqb (UnifyVariants t) u && "
                              "String.eqb (TypeToString t) s", terms, chunk=120)
    for i in bad:
        part.mismatches.append({"fn": "AppendVariant/UnifyVariants/TypeToString", "t": pairs[i][0], "v": pairs[i][1]})
    part.agreed += 3 * (len(terms) - len(bad))


def part_hash_corr(ctx, part):
    r = ctx.rng("hash")
    cases = []
    for _ in range(ctx.n(200, 2000)):
        n = r.randint(0, 5)
        keys = [r.choice(["a", "b", "c", "k", ""]) for _ in range(n)]
        vals = [G.NIL() if r.random() < 0.3 else G.gen_scalar(r, common=True) for _ in range(n)]
        cases.append((keys, vals, ["a", "b", "c", "k", "zz"]))
    outs = C.vh_batch([{"op": "hash_ops", "keys": k, "vals": v, "asks": a} for k, v, a in cases])
    terms = []
    for (keys, vals, asks), o in zip(cases, outs):
        part.evaluations += 1
        if "refs" not in o:
            part.mismatches.append({"fn": "HashReference", "case": [keys, vals], "answer": o})
            continue
        if len(set(keys)) < len(keys) or any(v["tag"] == 0 for v in vals):
            part.nontrivial.add(json.dumps([keys, vals], sort_keys=True))
        terms.append("(%s, %s, %s)" % (C.coq_list(["(%s, %s)" % (C.coq_str(k), C.coq_ty(v)) for k, v in zip(keys, vals)]),
                                       C.coq_list([C.coq_str(a) for a in asks]), C.coq_list([C.coq_ty(x) for x in o["refs"]])))
    bad = corr.coq_mismatches(["Model.Infer"], "list (string * ty) * list string * list ty",
                              "fun c => let '(pairs, asks, refs) := c in list_eqb ty_eqb (map (hash_reference (hash_of pairs)) asks) refs",
                              terms, chunk=150)
    for i in bad:
        part.mismatches.append({"fn": "HashReference/AppendHashVariant", "keys": cases[i][0], "vals": cases[i][1]})
    part.agreed += len(terms) - len(bad)


def part_e2e(ctx, part):
    def one(i):
        r = C.rng_for(ctx.pid, ctx.seed, "prog%d" % i)
        src, exp = infergen.gen_program(r)
        with C.Workdir() as wd:
            return src, exp, wd.ti([wd.write(src, "t.rb")])

    for src, exp, x in C.pmap(one, list(range(ctx.n(120, 1200))), par=8):
        if x.timeout:
            continue
        got = {}
        for l in x.out.split("\n"):
            m = re.match(r'^t\.rb:::(\d+):::(.*)$', l)
            if m:
                got.setdefault(int(m.group(1)), m.group(2))
        if re.search(r'\[[^\]]*\[|\]\s*=|push|<<', src):
            part.nontrivial.add(src)
        for row, want, note in exp:
            part.evaluations += 1
            part.count(note)
            ok = got.get(row) == want
            if not ok and "as a set" in note:          # Array<Array<...>>: the inner element types in any order
                m1, m2 = re.match(r'^Array<Array<(.*)>>$', got.get(row) or ""), re.match(r'^Array<Array<(.*)>>$', want)
                ok = bool(m1 and m2 and sorted(m1.group(1).split(" ")) == sorted(m2.group(1).split(" ")))
            if ok:
                part.agreed += 1
            else:
                part.failures.append(Failure("wrong_type", "row %d (%s): the reference rules give %s, ti reports %s" % (row, note, want, got.get(row)),
                                             {"program": src, "row": row, "rule": note}))
        part.sample({"lines": len(src.split("\n")), "probes": len(exp)})


PARTS = [part_tyops_corr, part_hash_corr, execcorr.part_exec_type, condcorr.part_cond_return, part_e2e]


def replay_finding(ctx, k):
    if k["id"] == "C09-exponent-literal":
        with C.Workdir() as wd:
            return "t.rb:::1:::Float" not in wd.ti([wd.write("dbtp 1e3\n", "t.rb")]).out
    return None


def replay(path):
    print(json.dumps(json.load(open(path)), indent=1)[:6000])
    return 0
