"""C27 — same-named classes in different namespaces do not interfere."""
import json
import re

from lib import common as C
from lib.flow import Failure
from props import c16

MANIFEST = {
    "text": "Theorems C27_decoy, C27_rename, C27_wrap (Coq), on the model of the ancestor walk of method lookup: classes and "
            "inheritance edges registered under nodes the walk from the receiver's class cannot meet change no lookup (a class of "
            "the same short name in another namespace is another (frame, class) node); the walk commutes with every consistent "
            "injective renaming of the nodes, and the renaming `module M` performs on frames (F -> M or M::F, CalculateFrame) is "
            "one for every M (proved for groups that mention no configured class). Tie: the walk's correspondence with getParentMethodT "
            "(C16's hook part, maps with equal class names under different frames); end to end, generated groups of classes "
            "(constants, initialize, methods that use constants and each other, superclasses inside the group) are analysed at "
            "top level, wrapped in one module and in two nested modules with outside references qualified, and next to a "
            "same-named decoy at top level or in another module with different methods, constants and an explicit superclass; "
            "the analysis of the group and of its uses must be the same up to qualified names.",
    "note": "Trusted: Coq kernel + vm_compute; the wrapping tool (qualifies the group's class names in the uses); constants and "
            "frame computation (CalculateFrame, nameSpaceEvaluation) are exercised end to end only.",
    "technique": "Coq proof (frame property of the lookup DFS under additional unreachable nodes; equivariance of the DFS "
                 "under node renaming, by induction on fuel); correspondence by vm_compute "
                 "through a build-tag hook; metamorphic wrapping / decoy runs",
}
REQUIRES = ["Model/Lookup.v"]
RULE = ("groups of 2-3 classes with 0-2 constants and 2-4 methods each; variants: top level, module M, modules M::N, each with "
        "and without a decoy (top-level or in module Other) that defines other methods, the same constants with other types "
        "and a superclass of its own; non-trivial = the decoy defines a constant or a parent method the group mentions")
TRUSTED = []
ASSUMPTIONS = ["the group is self-contained: it mentions only its own classes and constants, and builtin literals"]
PARTIAL = ["wrapping: the lookup walk is proved equivariant (C27_rename, C27_wrap); that `module M` renames the frames this way "
           "(CalculateFrame at class registration) and constant lookup are exploration only"]

CONSTS = [("LIMIT", "3", "Integer"), ("UNIT", "2.5", "Float"), ("TAG", '"t"', "String"), ("KIND", ":k", "Symbol")]
DECOY_VALS = {"LIMIT": '"max"', "UNIT": "1", "TAG": ":sym", "KIND": "2.5"}


def gen_group(r):
    names = r.sample(["Gauge", "Panel", "Meter", "Dial"], r.choice([2, 2, 3]))
    classes = []
    for i, n in enumerate(names):
        consts = r.sample(CONSTS, r.choice([0, 1, 2]))
        parent = names[i - 1] if i and r.random() < 0.4 else None
        meths = []
        for j in range(r.randint(2, 4)):
            kind = r.choice(["lit", "const", "const_undefined", "new_other", "ivar"])
            if kind == "const" and consts:
                body = r.choice(consts)[0]
            elif kind == "const_undefined":
                body = r.choice(CONSTS)[0]          # possibly not defined in this class: Unknown, whatever a decoy defines
            elif kind == "new_other" and i:
                body = "%s.new" % names[r.randrange(i)]
            elif kind == "ivar":
                body = "@v"
            else:
                body = r.choice(["1", '"s"', "1.5"])
            meths.append(("m%d%d" % (i, j), body))
        classes.append({"name": n, "parent": parent, "consts": consts, "meths": meths})
    return classes


def render_group(classes, indent=""):
    lines = []
    for c in classes:
        lines.append("%sclass %s%s" % (indent, c["name"], " < %s" % c["parent"] if c["parent"] else ""))
        for k, v, _ in c["consts"]:
            lines.append("%s  %s = %s" % (indent, k, v))
        if not c["parent"]:
            lines += ["%s  def initialize" % indent, "%s    @v = 1" % indent, "%s  end" % indent]
        for n, body in c["meths"]:
            lines += ["%s  def %s" % (indent, n), "%s    %s" % (indent, body), "%s  end" % indent]
        lines.append("%send" % indent)
    return lines


def render_uses(classes, prefix):
    lines = []
    for c in classes:
        q = prefix + c["name"]
        lines.append("o%s = %s.new" % (c["name"].lower(), q))
        lines.append("dbtp o%s" % c["name"].lower())
        for n, _ in c["meths"]:
            lines.append("dbtp o%s.%s" % (c["name"].lower(), n))
        if c["parent"]:          # inherited from the parent inside the group
            par = next(x for x in classes if x["name"] == c["parent"])
            lines.append("dbtp o%s.%s" % (c["name"].lower(), par["meths"][0][0]))
        for k, _, _ in c["consts"]:
            lines.append("dbtp %s::%s" % (q, k))
        lines.append("o%s.absent" % c["name"].lower())
        lines.append("o%s.raw" % c["name"].lower())          # defined only by the decoy's parent
    return lines


def render_decoy(r, classes, where):
    """same short names, other methods / constants / parents"""
    lines = ["class Sensor", "  def raw", '    "r"', "  end", "end"]
    ind = ""
    if where == "module":
        lines.append("module Other")
        ind = "  "
    for c in classes:
        lines.append("%sclass %s < Sensor" % (ind, c["name"]))
        for k, _, _ in CONSTS:
            if r.random() < 0.7:
                lines.append("%s  %s = %s" % (ind, k, DECOY_VALS[k]))
        lines += ["%s  def label" % ind, "%s    LIMIT" % ind, "%s  end" % ind, "%s  def absent" % ind, "%s    1" % ind, "%s  end" % ind]
        lines.append("%send" % ind)
    if where == "module":
        lines.append("end")
    return lines


def norm_out(out, drop_prefixes):
    res = []
    for l in out.split("\n"):
        m = re.match(r'^t\.rb:::(\d+):::(.*)$', l)
        if m:
            t = m.group(2)
            for p in drop_prefixes:
                t = t.replace(p, "")
            res.append(t)
    return res


def part_wrap_and_decoy(ctx, part):
    def one(i):
        r = C.rng_for(ctx.pid, ctx.seed, "group%d" % i)
        classes = gen_group(r)
        base = "\n".join(render_group(classes) + render_uses(classes, "")) + "\n"
        variants = []
        for wrap in (None, ["M"], ["M", "N"]):
            for decoy in (None, "top", "module"):
                if wrap is None and decoy is None:
                    continue
                if wrap is None and decoy == "top":
                    continue            # two top-level classes of one name are one class
                g = render_group(classes, "  " * len(wrap or []))
                pre = ["%smodule %s" % ("  " * j, w) for j, w in enumerate(wrap or [])]
                post = ["%send" % ("  " * j) for j in reversed(range(len(wrap or [])))]
                d = render_decoy(r, classes, decoy) if decoy else []
                prefix = "::".join(wrap) + "::" if wrap else ""
                body = pre + g + post
                order = r.random() < 0.5
                lines = (d + body if order else body + d) + render_uses(classes, prefix)
                nuses = len(render_uses(classes, prefix))
                variants.append((wrap, decoy, "\n".join(lines) + "\n", prefix, nuses))
        with C.Workdir() as wd:
            a = wd.ti([wd.write(base, "t.rb")])
            outs = [(v, wd.ti([wd.write(v[2], "t.rb")])) for v in variants]
        return classes, base, a, outs

    for classes, base, a, outs in C.pmap(one, list(range(ctx.n(30, 300))), par=8):
        if a.timeout:
            continue
        nuses = len(render_uses(classes, ""))
        nbase = len(base.rstrip("\n").split("\n"))
        want = [t for (row, t) in [(int(m.group(1)), m.group(2)) for m in re.finditer(r'^t\.rb:::(\d+):::(.*)$', a.out, re.M)] if row > nbase - nuses]
        for (wrap, decoy, src, prefix, nu), x in outs:
            part.evaluations += 1
            part.count("wrap%d/%s" % (len(wrap or []), decoy or "none"))
            if x.timeout:
                continue
            n = len(src.rstrip("\n").split("\n"))
            got = []
            for m in re.finditer(r'^t\.rb:::(\d+):::(.*)$', x.out, re.M):
                if int(m.group(1)) > n - nu:
                    t = m.group(2)
                    for p in ([prefix, "::".join(wrap) + "::"] if wrap else []):
                        t = t.replace(p, "")
                    if wrap:
                        t = re.sub(r'\b(M::N::|M::|N::)', '', t)
                    got.append(t)
            if decoy:
                part.nontrivial.add(src)
            if got == want:
                part.agreed += 1
            else:
                diff = next(((p, q) for p, q in zip(want + [None] * len(got), got + [None] * len(want)) if p != q), None)
                part.failures.append(Failure("namespace_interference", "group %s, decoy %s: a use prints %r at top level and %r here" % (
                    "wrapped in " + "::".join(wrap) if wrap else "at top level", decoy or "none", diff[0], diff[1]),
                    {"program": src, "top_level_program": base, "wrap": wrap, "decoy": decoy}))
        part.sample({"classes": [c["name"] for c in classes]})


PARTS = [c16.part_lookup_corr, part_wrap_and_decoy]


def replay(path):
    print(json.dumps(json.load(open(path)), indent=1)[:6000])
    return 0
