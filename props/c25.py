"""C25 — rbs2json conversion is deterministic and keeps signature shape."""
import hashlib
import json
import os
import re
import subprocess

from lib import common as C
from lib import corr
from lib import rbsgen
from lib.flow import Failure

MANIFEST = {
    "text": "Theorems C25_* (Coq): convertArguments emits, for every function type and whatever convertType answers, the groups "
            "required positionals / optional positionals (is_default) / rest (is_asterisk) / trailing positionals / required "
            "keywords / optional keywords (is_default) in that order, one argument per typed parameter; and — the keyword "
            "parameters being Go maps — its output is the same for ANY two orders in which the maps are enumerated (canonical "
            "sort of the names under a total order, lookup in a duplicate-free map). Tie: the real ti-rbs2json runs, with a "
            "stand-in `ruby` on PATH that prints the generated AST document, on classes with overload-free methods, singleton "
            "methods, aliases, attributes, nested classes, comments and keyword-heavy signatures over 19 RBS type shapes; the "
            "emitted arguments and return types are compared with the model (convert_type, convert_arguments) by vm_compute; "
            "every document is converted four times and compared byte for byte; end to end, ti loads the produced "
            "configuration and is run on calls with 0..n+2 positional arguments, with and without the required and optional "
            "keywords.",
    "note": "Trusted: Coq kernel + vm_compute; the stand-in ruby (the embedded Ruby script and the rbs gem are not run: no "
            "ruby in the sandbox); lib/rbsgen.py's account of which calls an RBS signature allows; encoding/json.",
    "technique": "Coq proof (group order of the emitted arguments; determinism against a map-iteration adversary via a "
                 "canonical sort); correspondence by vm_compute against the real binary; repeated conversions; end-to-end calls",
}
REQUIRES = ["Model/Rbs2Json.v"]
RULE = ("documents of one class with 6 methods (0-2 required, 0-2 optional, rest, trailing, 0-4 required and 0-3 optional "
        "keywords), an alias, an attribute, a nested class; 4 conversions each; calls with k = 0..n+2 positionals, a missing "
        "required keyword, a subset of optional keywords; non-trivial = the signature has keywords or optional/rest parts")
TRUSTED = ["lib/rbsgen.py: a call is allowed iff req+trail <= k and (rest or k <= req+opt+trail) and every required keyword is given"]
ASSUMPTIONS = ["the keys of a JSON object are distinct (Go map)"]
PARTIAL = ["arity of the loaded declaration through the binder: explored end to end; proved only for rest-free untyped "
           "declarations (C26_arity_positional)", "optionals left out before a rest parameter or trailing positionals (kept finding, binder)",
           "rest keywords (**opts) are not converted and unknown keywords are not rejected by ti: outside the arity claim",
           "the embedded Ruby script is replaced by a stand-in"]


def run_converter(wd, doc, out_dir):
    bindir = os.path.join(wd.path, "bin")
    if not os.path.exists(bindir):
        os.makedirs(bindir)
        rb = os.path.join(bindir, "ruby")
        with open(rb, "w") as fh:
            fh.write('#!/bin/sh\nexec cat "$2"\n')
        os.chmod(rb, 0o755)
    wd.write(json.dumps(doc), "widget.rbs")
    env = dict(os.environ, PATH=bindir + ":" + os.environ["PATH"])
    p = subprocess.run([os.path.join(C.BIN, "ti-rbs2json"), "-o", out_dir + "/", "widget.rbs"], cwd=wd.path, env=env,
                       stdout=subprocess.PIPE, stderr=subprocess.PIPE, timeout=60)
    files = {}
    d = os.path.join(wd.path, out_dir)
    if os.path.isdir(d):
        for f in sorted(os.listdir(d)):
            if f.endswith(".json") and (out_dir != ".ti-config" or f in ("widget.json", "widget_part.json", "helper.json")):
                files[f] = open(os.path.join(d, f), "rb").read()
    return p.returncode, files, p.stderr.decode("utf-8", "replace")


def shape_class(m, note):
    """optional_skipped: the binder assigns left to right, so a call that leaves optionals out while something
    required follows them (a rest parameter ends the walk; trailing positionals) is the kept finding."""
    ft = m["ft"]
    nreq, nopt, ntr = len(ft["required_positionals"]), len(ft["optional_positionals"]), len(ft["trailing_positionals"])
    if not nopt:
        return "other"
    if ft["rest_positionals"] is not None:
        return "optional_skipped"
    mk = re.match(r"k=(\d+)", note)
    if ntr and mk and nreq + ntr <= int(mk.group(1)) < nreq + nopt + ntr:
        return "optional_skipped"
    if ntr and not mk:
        return "optional_skipped"        # keyword probes are made with the optionals left out
    return "other"


def part_rbs2json(ctx, part):
    def one(i):
        r = C.rng_for(ctx.pid, ctx.seed, "doc%d" % i)
        doc, methods = rbsgen.gen_document(r)
        with C.Workdir() as wd:
            rc, files, err = run_converter(wd, doc, ".ti-config")
            repeats = [run_converter(wd, doc, "again%d" % j)[1] for j in range(3)]
            lines, calls = ["w = Widget.new"], []
            for m in methods:
                if m["private"]:
                    continue
                for args, ok, note in rbsgen.calls_for(r, m):
                    lines.append("%s.%s(%s)" % ("Widget" if m["singleton"] else "w", m["name"], args))
                    calls.append((len(lines), m, ok, note, args))
            x = wd.ti([wd.write("\n".join(lines) + "\n", "t.rb")]) if rc == 0 else None
        return doc, methods, rc, files, repeats, err, calls, x

    terms, kept = [], []
    for doc, methods, rc, files, repeats, err, calls, x in C.pmap(one, list(range(ctx.n(30, 300))), par=8):
        part.evaluations += 1
        if rc != 0 or "widget.json" not in files:
            part.failures.append(Failure("converter_failed", "ti-rbs2json exits with %d" % rc, {"document": doc, "stderr": err[-400:]}))
            continue
        for rep in repeats:
            part.evaluations += 1
            if rep != files:
                sums = sorted(set(hashlib.md5(b"".join(f[k] for k in sorted(f))).hexdigest() for f in [files] + repeats))
                part.failures.append(Failure("nondeterministic_output", "ti-rbs2json writes different JSON for the same declarations",
                                             {"document": doc, "md5s": sums}))
                break
        else:
            part.agreed += len(repeats)
        cfg = json.loads(files["widget.json"])
        emitted = {}
        for key, single in (("instance_methods", False), ("class_methods", True)):
            for e in cfg.get(key) or []:
                emitted[(e["name"], single)] = e
        for m in methods:
            e = emitted.get((m["name"], m["singleton"]))
            if m["private"]:
                if e is not None:
                    part.mismatches.append({"fn": "convertDeclarations", "what": "private method emitted", "method": m["name"]})
                continue
            if e is None:
                part.mismatches.append({"fn": "convertDeclarations", "what": "method missing", "method": m["name"], "document": doc})
                continue
            obs = C.coq_list(["(Build_tiarg %s %s %s %s)" % (C.coq_list([C.coq_str(t) for t in a.get("type") or []]), C.coq_str(a.get("key", "")),
                                                            C.coq_bool(a.get("is_asterisk", False)), C.coq_bool(a.get("is_default", False)))
                              for a in e.get("arguments") or []])
            ret = C.coq_list([C.coq_str(t) for t in e["return_type"]["type"]])
            order = (lambda ks: ks) if len(terms) % 2 else (lambda ks: list(reversed(ks)))     # the map order the model is given
            terms.append("(%s, %s, %s, %s)" % (rbsgen.coq_functype(m["ft"], order), rbsgen.coq_rtype(m["ft"]["return_type"]), obs, ret))
            kept.append((m, e, doc))
            if m["ft"]["required_keywords"] or m["ft"]["optional_keywords"]:
                part.nontrivial.add(json.dumps(m["ft"], sort_keys=True))
        # --- end to end
        if x is None or x.crashed or x.timeout or x.rc != 0:
            part.failures.append(Failure("ti_failed", "ti fails on the produced configuration", {"document": doc}))
            continue
        errs = {}
        for l in x.out.split("\n"):
            mm = re.match(r'^t\.rb:::(\d+):::(.*)', l)
            if mm:
                errs[int(mm.group(1))] = mm.group(2)
        for row, m, ok, note, args in calls:
            part.evaluations += 1
            got = row not in errs
            part.count("call_" + note.split()[0].split("=")[0])
            if got == ok:
                part.agreed += 1
                continue
            cls = shape_class(m, note)
            part.count("arity_" + cls)
            part.failures.append(Failure("arity_mismatch", "%s(%s) [%s]: RBS %s, ti %s (%s)" % (
                m["name"], args, note, "allows" if ok else "forbids", "accepts" if got else "rejects", errs.get(row, "no diagnostic")),
                {"class": cls, "call": args, "note": note, "signature": m["ft"], "emitted": emitted.get((m["name"], m["singleton"]))}))
        part.sample({"methods": [m["name"] for m in methods][:4], "files": sorted(files)})
    fn = ("fun c => let '(ft, rt, obs, ret) := c in "
          "let conv := fun t => match convert_type 16 [(\"size\"%string, RT \"class_instance\" \"::Integer\" [] None [] \"\"); (\"loop_a\"%string, RT \"alias\" \"loop_b\" [] None [] \"\"); (\"loop_b\"%string, RT \"alias\" \"loop_a\" [] None [] \"\")] \"Widget\" t with Some l => l | None => [] end in "
          "list_eqb tiarg_eqb (convert_arguments conv ft) obs && "
          "(list_eqb String.eqb (conv rt) ret || (list_eqb String.eqb (conv rt) [\"NilClass\"%string] && false))")
    bad = corr.coq_mismatches(["Model.Rbs2Json"], "functype * rtype * list tiarg * list string", fn, terms, chunk=150)
    for i in bad:
        m, e, doc = kept[i]
        part.mismatches.append({"fn": "convertArguments/convertType", "method": m["name"], "signature": m["ft"], "emitted": e})
    part.agreed += len(terms) - len(bad)
    part.evaluations += len(terms)


PARTS = [part_rbs2json]

OPT_REST_DOC = [{"declaration": "class", "name": "Widget", "type_params": [], "super_class": None, "comment": None, "members": [
    {"member": "method_definition", "name": "initialize", "kind": "instance", "visibility": "public", "comment": None, "overloads": [
        {"method_type": {"type_params": [], "block": None, "type": {"required_positionals": [], "optional_positionals": [], "rest_positionals": None,
         "trailing_positionals": [], "required_keywords": {}, "optional_keywords": {}, "rest_keywords": None, "return_type": {"class": "void"}}}}]},
    {"member": "method_definition", "name": "m", "kind": "instance", "visibility": "public", "comment": None, "overloads": [
        {"method_type": {"type_params": [], "block": None, "type": {
            "required_positionals": [{"type": rbsgen.ci("::Integer"), "name": "a"}],
            "optional_positionals": [{"type": rbsgen.ci("::Integer"), "name": "b"}],
            "rest_positionals": {"type": {"class": "untyped"}, "name": "r"}, "trailing_positionals": [],
            "required_keywords": {"depth": {"type": rbsgen.ci("::Integer"), "name": "depth"}}, "optional_keywords": {},
            "rest_keywords": None, "return_type": {"class": "void"}}}}]}]}]


def replay_finding(ctx, k):
    if k["id"] == "C25-opt-rest":
        with C.Workdir() as wd:
            rc, files, _ = run_converter(wd, OPT_REST_DOC, ".ti-config")
            x = wd.ti([wd.write("w = Widget.new\nw.m(1)\nw.m(1, depth: 2)\n", "t.rb")])
        return rc == 0 and "t.rb:::2:::" not in x.out        # the required keyword is missing and nothing is reported
    return None


def replay(path):
    print(json.dumps(json.load(open(path)), indent=1)[:6000])
    return 0
