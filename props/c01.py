"""C01 — the analyzer never crashes, whatever source it is given."""
import json

from lib import robust

MANIFEST = {
    "text": "Theorems C01_* (Coq): on the driver skeleton of main.go, for EVERY behaviour of the evaluator short of a Go "
            "fatal error (each top-level step ends normally, with an error or with a panic), the run ends with status 0, "
            "every printed line names the target file and every diagnostic is a single line, in plain and -i mode; a panic "
            "becomes an `internal error` diagnostic; parser.Read never answers `read error` on any rune sequence (from the "
            "lexer model of C03); every type tag the source declares has a case in TypeToString (regenerated tables). The "
            "driver model is tied to the code by hook-driven scripts (__verif_error__/__verif_panic__) compared line by line; "
            "the evaluator itself (about 10 kLoC) is reached only by the sweep: prefixes, mutations and malformed streams of "
            "golden and generated programs, in plain and -i mode.",
    "note": "Partial: nothing is proved about the inside of the evaluator; Go fatal errors (stack exhaustion, out of memory) "
            "and os.Exit paths inside printers cannot be exhibited by the model; the sweep is exploration, not proof.",
    "technique": "Coq proof over a driver model with the evaluator as an oracle + lexer/parser totality; correspondence by "
                 "vm_compute on hook-driven scripts; black-box sweep for the unmodelled evaluator",
}
REQUIRES = ["Model/Driver.v", "Model/Parser.v", "Generated.v"]
RULE = ("hook-driven scripts (ok / error / panic / blank / comment lines, 0-2 preload files, plain and -i); sweep inputs: "
        "lexer specials, design-phase probes, random byte prefixes and line prefixes of golden and generated programs, "
        "token-level mutations (replace/delete/insert over a 48-rune alphabet incl. NUL and invalid UTF-8), cyclic "
        "hierarchies; non-trivial = more than 8 bytes; distinct = distinct (bytes, mode)")
TRUSTED = ["Go's recover() intercepts every runtime panic raised on the analysing goroutine"]
ASSUMPTIONS = ["the evaluator answers each top-level step with Ok, an error or a (recoverable) panic, and records only "
               "newline-free -i hints"]
PARTIAL = ["C01_driver holds for every oracle; the evaluator's own code is covered by exploration only"]


def line_ok(l):
    return bool(robust.DIAG.match(l) or robust.INFO.match(l))


def part_sweep(ctx, part):
    inputs = robust.gen_inputs(ctx, "c01", ctx.n(25, 300), ctx.n(10, 100))
    robust.sweep(ctx, part, inputs, lambda src: [[], ["-i"]], line_ok, {"crash", "status", "badline", "hang"})


PARTS = [robust.part_driver_corr, part_sweep]


def replay(path):
    print(json.dumps(json.load(open(path)), indent=1)[:6000])
    return 0
