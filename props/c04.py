"""C04 — editor query modes never crash or hang, whatever row is asked about."""
import json

from lib import common as C
from lib import robust
from lib import suggestcorr

MANIFEST = {
    "text": "Theorems C04_* (Coq): a whole run in a query mode (the driver without -i, then PrintSuggestionsForLsp / PrintHover / "
            "PrintAllDefinitionsForLsp, then the diagnostics) ends with status 0 and prints only well-formed one-line %/@/$ "
            "records and one-line diagnostics of the target file — for EVERY captured target (the row only decides which value "
            "the evaluator captures), every signature table, every inheritance map (cyclic ones included) and every behaviour of "
            "the evaluator short of a Go fatal error; the ancestor walk of the completion filter terminates on every map; the "
            "pinned code is refuted by the target that renders as the empty string. Tie: the three printers are executed "
            "through a hook on generated targets / tables / maps and compared line for line with the model (vm_compute); the "
            "driver skeleton by hook-driven scripts; end to end, every row from 0 to lines+2 x {--suggest, --hover, --define} "
            "over corpus prefixes, mutations, generated programs and hand-written rows (empty string literals, implicit "
            "receivers, several ti-doc comments, dangling dots).",
    "note": "Trusted: Coq kernel + vm_compute; harness; the evaluator is an oracle in the model (each step ends normally, with "
            "an error or with a panic) and is exercised by the row sweep only. A hang = `timeout` printed again when re-run alone.",
    "technique": "Coq proof (totality and output well-formedness of the query printers over all targets; DFS termination); "
                 "correspondence by vm_compute through build-tag hooks; exhaustive row sweep of ti over generated inputs",
}
REQUIRES = ["Model/Query.v", "Model/Driver.v"]
RULE = ("printers: random targets of 12 shapes (unions included), 0-7 signatures, random maps; rows: every row 0..lines+2 "
        "(a sample of 11 rows per input beyond that in the quick tier) x 3 modes; non-trivial = the printer printed at least one "
        "line / the input has more than 8 bytes")
TRUSTED = []
ASSUMPTIONS = ["each call into the evaluator returns, with a value, an error or a panic (explored by the sweep)"]
PARTIAL = ["evaluator-internal behaviour on the queried row: exploration only"]

SPECIALS = [
    'x = ""\n', "''\n", 'def e\n  ""\nend\ne\n', 'label = ""\nlabel\nlabel.\n',
    "class Doc\n  # ti-doc: first line\n  # ti-doc: second line\n  def documented(x)\n    x\n  end\nend\nd = Doc.new\nd.documented(1)\nd.\n",
    "# ti-doc: stale\n# ti-doc: another\n\ndef top(a)\n  a\nend\ntop(1)\nto\n",
    "class User\n  attr_accessor :name\n  def hoge\n    1\n    f\n  end\n  private\n  def fuga\n    na\n  end\nend\nu = User.new\nu.\n",
    "class A < B\nend\nclass B < A\n  def m\n    1\n  end\nend\nA.new.\nA.\nx = A.new\nx\n",
    "module M\n  include M\n  def q\n    1\n  end\nend\nclass C\n  include M\n  extend M\nend\nC.new.\nC.\n",
    "x = [1, \"s\"].first\nx.\n", "a = 1\na.\n\n\n", "self.\n", "self\n", ".\n", "::\n", "Foo::\n", "@x.\n", "$g.\n", "nil.\n",
]


def rows_for(ctx, src):
    n = len(src.split(b"\n"))
    rows = list(range(0, n + 3))
    if ctx.quick and len(rows) > 11:
        r = C.rng_for(ctx.pid, ctx.seed, "rows%d" % len(src))
        keep = {0, 1, n - 1, n, n + 1, n + 2}
        rows = sorted(keep | set(r.sample(rows, 5)))
    elif len(rows) > 60:
        r = C.rng_for(ctx.pid, ctx.seed, "rows%d" % len(src))
        rows = sorted({0, 1, n - 1, n, n + 1, n + 2} | set(r.sample(rows, 54)))
    return rows


def part_row_sweep(ctx, part):
    inputs = [("special", s.encode()) for s in SPECIALS]
    gen = [i for i in robust.gen_inputs(ctx, "c04", ctx.n(4, 60), ctx.n(4, 50)) if i[0] != "special"]
    if ctx.quick:       # the probes directory is swept in full by the thorough tier
        r = ctx.rng("pick")
        probes = [i for i in gen if i[0].startswith("probe:")]
        tiny = [i for i in gen if i[0] == "byte"]
        gen = [i for i in gen if not i[0].startswith("probe:") and i[0] != "byte"] + r.sample(probes, min(8, len(probes))) + \
            r.sample(tiny, min(24, len(tiny))) + [i for i in tiny if i[1] in (b"\xef", b"\xef\xbb", b"\xe3\x81", b"\xf0\x9f\x98")]
    inputs += gen

    def modes(src):
        ms = []
        for row in rows_for(ctx, src):
            for flag in ("--suggest", "--hover", "--define"):
                ms.append([flag, "--row=%d" % row])
        return ms

    def line_ok(l):
        return bool(robust.RECORD.match(l) or robust.DIAG.match(l))

    robust.sweep(ctx, part, inputs, modes, line_ok, {"crash", "hang", "status", "badline"})


PARTS = [suggestcorr.part_print_corr, robust.part_driver_corr, part_row_sweep]


def replay(path):
    print(json.dumps(json.load(open(path)), indent=1)[:6000])
    return 0
