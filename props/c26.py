"""C26 — c2json signatures accept exactly the argument counts the C binding accepts."""
import hashlib
import json
import os
import re
import subprocess

from lib import c2gen
from lib import common as C
from lib import corr
from lib.flow import Failure

MANIFEST = {
    "text": "Theorems C26_* (Coq): inferArguments, modelled on what its regular expressions extract (MRB_ARGS words, "
            "mrb_get_args format, GET_*_ARG uses, argc guards), emits a declaration whose shape (required / optional / rest / "
            "trailing counts, as the loader reads `?T`, the key \"*args\" and Block declarations) is exactly the shape of the "
            "binding — for every REQ/OPT/REST/POST/BLOCK combination and every format string in which `*` comes last; a "
            "declaration without rest is accepted by the model of checkAndPropagateArgs for k positional arguments exactly when "
            "req <= k <= req+opt (composition with ArgsP.check_args_positional); a declaration required ++ [rest] ++ trailing "
            "is accepted exactly when req+trailing <= k (C26_arity_rest, through the star branch of the walk), also when "
            "parameters with a default — the `?Block` emitted for MRB_ARGS_BLOCK() / `&` — follow (C26_arity_rest_block; the "
            "code before the repair is a refuted variant). With optional parameters before the rest and trailing ones after "
            "it the walk departs from the binding: refuted by a computed witness and kept as a finding. "
            "Tie: the real ti-c2json runs on generated C sources (mrb_define_method / _id / class_method, mrbc_define_method, "
            "one-line and multi-line specs) and its emitted arguments are compared with the model; end to end, ti is then run "
            "with the produced configuration on calls with 0..6 arguments; the output is converted twice and compared byte "
            "for byte.",
    "note": "Trusted: Coq kernel + vm_compute; the generator's own account of the binding's arity (lib/c2gen.py: mrb_get_args "
            "format semantics of mruby, aspec words otherwise); the regular expressions are exercised, not modelled.",
    "technique": "Coq proof (shape preservation of the conversion; arity of positional declarations through the argument "
                 "binder model); correspondence by vm_compute against the real binary; end-to-end differential runs",
}
REQUIRES = ["Model/C2Json.v", "Model/Args.v"]
RULE = ("C sources of 8 bindings each: formats over 15 letters with |, *, &, !, ?; MRB_ARGS_NONE/ANY/REQ/OPT/REST/POST/BLOCK "
        "joined on one or several lines; GET_*_ARG bodies with 0-2 argc guards; each binding called with 0..6 arguments of "
        "fitting types; non-trivial = the binding has an optional, rest or trailing part")
TRUSTED = ["lib/c2gen.py: accepted counts of a binding = req+post <= k and (rest or k <= req+opt+post)"]
ASSUMPTIONS = ["a format with `*` has no argument letters after it (mruby's `*` takes everything left)"]
PARTIAL = ["C26_opt_post_refuted: OPT together with POST (kept finding)",
           "OPT together with REST: arity through the binder is explored end to end (and is the finding), not proved",
           "the mrb_get_args keyword format `:` is not converted (not generated)"]


def convert(wd, src, name="widget.c"):
    cf = wd.write(src, name)
    p = subprocess.run([os.path.join(C.BIN, "ti-c2json"), "--module", "--class", "Widget", cf], cwd=wd.path,
                       stdout=subprocess.PIPE, stderr=subprocess.PIPE, timeout=60)
    return p.returncode, p.stdout.decode("utf-8", "replace"), p.stderr.decode("utf-8", "replace")


def coq_aspec(a):
    return "(Build_aspec %s %s %d %d %s %d %s)" % (C.coq_bool(a["none"]), C.coq_bool(a["any"]), a["req"], a["opt"],
                                                   C.coq_bool(a["rest"]), a["post"], C.coq_bool(a["block"]))


def classify(shape, aspec):
    if shape["rest"] and shape["opt"] and shape["post"]:
        return "opt_post"
    return "other"


def part_c2json(ctx, part):
    seeds = range(ctx.n(30, 300))

    def one(i):
        r = C.rng_for(ctx.pid, ctx.seed, "src%d" % i)
        src, methods = c2gen.gen_source(r, extra_letters=True)
        with C.Workdir() as wd:
            rc, out, err = convert(wd, src)
            rc2, out2, _ = convert(wd, src, "again.c")
            prog, calls = c2gen.call_program(methods)
            x = None
            if rc == 0:
                with open(os.path.join(wd.path, ".ti-config", "zz_widget.json"), "w") as fh:
                    fh.write(out)
                x = wd.ti([wd.write(prog, "t.rb")])
        return src, methods, rc, out, out2, err, prog, calls, x

    terms, kept = [], []
    for src, methods, rc, out, out2, err, prog, calls, x in C.pmap(one, list(seeds), par=8):
        part.evaluations += 1
        if rc != 0:
            part.failures.append(Failure("converter_failed", "ti-c2json exits with %d" % rc, {"c_source": src, "stderr": err[-400:]}))
            continue
        if out != out2:
            part.failures.append(Failure("nondeterministic_output", "ti-c2json prints different JSON for the same source",
                                         {"c_source": src, "md5s": [hashlib.md5(o.encode()).hexdigest() for o in (out, out2)]}))
        cfg = json.loads(out)
        emitted = {m["name"]: m for m in (cfg.get("class_methods") or [])}
        # --- correspondence of the conversion with the model
        for m in methods:
            e = emitted.get(m["name"])
            if e is None:
                part.mismatches.append({"fn": "extractDefineMethod/extractMethodBody", "missing_method": m["name"], "detail": m["detail"], "c_source": src})
                continue
            obs = [((a.get("type") or [""])[0], a.get("key", "")) for a in e.get("arguments") or []]
            terms.append("(%s, %s, %s, %s, %s)" % (
                coq_aspec(m["aspec"]), C.coq_opt(C.coq_str(m["fmt"]) if m["fmt"] else None),
                C.coq_list(["(%s, %d)" % (C.coq_str(k), j) for k, j in m["gets"]]), C.coq_list([str(g) for g in m["guards"]]),
                C.coq_list(["(%s, %s)" % (C.coq_str(t), C.coq_str(k)) for t, k in obs])))
            kept.append((m, obs, src))
            part.count(m["style"])
        # --- end to end: the counts ti accepts under the produced configuration
        if x is None or x.crashed or x.timeout or x.rc != 0:
            part.failures.append(Failure("ti_failed", "ti fails on the produced configuration", {"c_source": src, "config": out[:2000]}))
            continue
        errs = {}
        for l in x.out.split("\n"):
            mm = re.match(r'^t\.rb:::(\d+):::(.*)', l)
            if mm:
                errs[int(mm.group(1))] = mm.group(2)
        for row, mi, k in calls:
            m = methods[mi]
            part.evaluations += 1
            exp = c2gen.accepts(m["shape"], k)
            got = row not in errs
            if m["shape"]["opt"] or m["shape"]["rest"] or m["shape"]["post"]:
                part.nontrivial.add(m["detail"] + str(k))
            if exp == got:
                part.agreed += 1
                continue
            cls = classify(m["shape"], m["aspec"])
            part.count("arity_" + cls)
            part.failures.append(Failure("arity_mismatch", "binding %s called with %d argument(s): C %s, ti %s (%s)" % (
                m["detail"], k, "accepts" if exp else "rejects", "accepts" if got else "rejects", errs.get(row, "no diagnostic")),
                {"class": cls, "binding": m["detail"], "k": k, "c_source": src, "config_method": emitted.get(m["name"])}))
        part.sample({"bindings": [m["detail"] for m in methods[:3]]})
    bad = corr.coq_mismatches(["Model.C2Json"], "aspec * option string * list (string * nat) * list nat * list (string * string)",
                              "fun c => let '(a, f, gets, guards, obs) := c in "
                              "list_eqb (fun x y : string * string => String.eqb (fst x) (fst y) && String.eqb (snd x) (snd y)) "
                              "(infer_arguments a f gets guards) obs", terms, chunk=300)
    for i in bad:
        m, obs, src = kept[i]
        part.mismatches.append({"fn": "inferArguments", "binding": m["detail"], "emitted": obs, "c_source": src[:3000]})
    part.agreed += len(terms) - len(bad)
    part.evaluations += len(terms)


PARTS = [part_c2json]

REST_BLOCK_C = ('#include <mruby.h>\n\nstatic mrb_value\nwidget_m(mrb_state *mrb, mrb_value self)\n{\n  mrb_int argc = mrb_get_argc(mrb);\n  (void)argc;\n'
                '  return mrb_fixnum_value(1);\n}\n\nvoid\nmrb_widget_gem_init(mrb_state *mrb)\n{\n  struct RClass *cls = mrb_define_class(mrb, "Widget", mrb->object_class);\n'
                '  mrb_define_class_method(mrb, cls, "m", widget_m, %s);\n}\n')


def accepted(aspec_text, k):
    with C.Workdir() as wd:
        rc, out, _ = convert(wd, REST_BLOCK_C % aspec_text)
        with open(os.path.join(wd.path, ".ti-config", "zz_widget.json"), "w") as fh:
            fh.write(out)
        x = wd.ti([wd.write("Widget.m(%s)\n" % ", ".join(["1"] * k), "t.rb")])
    return "t.rb:::1:::" not in x.out


def replay_finding(ctx, k):
    if k["id"] == "C26-opt-post":
        return accepted("MRB_ARGS_REQ(1)|MRB_ARGS_OPT(1)|MRB_ARGS_REST()|MRB_ARGS_POST(1)", 1)
    return None


def replay(path):
    print(json.dumps(json.load(open(path)), indent=1)[:6000])
    return 0
