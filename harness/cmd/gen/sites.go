package main

import (
	"go/ast"
	"go/importer"
	"go/types"
	"os"
	"path/filepath"
	"sort"
	"strings"
)

type mapSite struct {
	File string `json:"file"`
	Func string `json:"func"`
	Expr string `json:"expr"`
	Nth  int    `json:"nth"` // n-th map range inside that function (0-based)
}

// mapRangeSites type-checks every non-test package of the repository and lists each
// `for … range <expr of map type>` together with its enclosing function.
func mapRangeSites() []mapSite {
	var sites []mapSite
	pkgDirs := map[string][]string{}
	filepath.Walk(repo, func(p string, info os.FileInfo, err error) error {
		if err != nil {
			return nil
		}
		if info.IsDir() {
			n := info.Name()
			if n == ".git" || n == "test" || n == "example" || n == "docs" {
				return filepath.SkipDir
			}
			return nil
		}
		if strings.HasSuffix(p, ".go") && !strings.HasSuffix(p, "_test.go") &&
			!strings.HasPrefix(info.Name(), "verif_") {
			pkgDirs[filepath.Dir(p)] = append(pkgDirs[filepath.Dir(p)], p)
		}
		return nil
	})
	imp := importer.ForCompiler(fset, "source", nil)
	dirs := []string{}
	for d := range pkgDirs {
		dirs = append(dirs, d)
	}
	sort.Strings(dirs)
	for _, d := range dirs {
		var files []*ast.File
		for _, p := range pkgDirs[d] {
			rel, _ := filepath.Rel(repo, p)
			files = append(files, parseFile(rel))
		}
		info := &types.Info{Types: map[ast.Expr]types.TypeAndValue{}}
		conf := types.Config{Importer: imp, Error: func(error) {}}
		conf.Check(d, fset, files, info)
		for _, f := range files {
			rel, _ := filepath.Rel(repo, fset.Position(f.Pos()).Filename)
			for _, decl := range f.Decls {
				fd, ok := decl.(*ast.FuncDecl)
				if !ok || fd.Body == nil {
					continue
				}
				nth := 0
				ast.Inspect(fd.Body, func(n ast.Node) bool {
					rs, ok := n.(*ast.RangeStmt)
					if !ok {
						return true
					}
					tv, ok := info.Types[rs.X]
					if !ok || tv.Type == nil {
						return true
					}
					if _, isMap := tv.Type.Underlying().(*types.Map); isMap {
						sites = append(sites, mapSite{rel, fd.Name.Name, types.ExprString(rs.X), nth})
						nth++
					}
					return true
				})
			}
		}
	}
	sort.Slice(sites, func(i, j int) bool {
		if sites[i].File != sites[j].File {
			return sites[i].File < sites[j].File
		}
		if sites[i].Func != sites[j].Func {
			return sites[i].Func < sites[j].Func
		}
		return sites[i].Nth < sites[j].Nth
	})
	return sites
}
