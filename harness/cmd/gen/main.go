// gen — translator: reads the current /repo source tree (go/ast, go/types) and the values
// the code computes for its own tables, and writes them as JSON; lib/gen2coq.py prints that JSON as
// coq/Generated.v.  Everything here is re-derived from the working tree on every run.
package main

import (
	"encoding/json"
	"fmt"
	"go/ast"
	"go/parser"
	"go/token"
	"os"
	"path/filepath"
	"sort"
	"strconv"
	"unicode"

	"ti/base"
	"ti/builtin"
)

var repo = "/repo"
var fset = token.NewFileSet()

func parseFile(rel string) *ast.File {
	f, err := parser.ParseFile(fset, filepath.Join(repo, rel), nil, parser.ParseComments)
	if err != nil {
		fail("cannot parse " + rel + ": " + err.Error())
	}
	return f
}

func fail(msg string) {
	fmt.Fprintln(os.Stderr, "gen: "+msg)
	os.Exit(3)
}

func findFunc(f *ast.File, recv, name string) *ast.FuncDecl {
	for _, d := range f.Decls {
		fd, ok := d.(*ast.FuncDecl)
		if !ok || fd.Name.Name != name {
			continue
		}
		if recv == "" && fd.Recv == nil {
			return fd
		}
		if recv != "" && fd.Recv != nil {
			return fd
		}
	}
	return nil
}

// litValue returns the value of a basic literal: string → string, char → int code point.
func litValue(e ast.Expr) (any, bool) {
	switch x := e.(type) {
	case *ast.BasicLit:
		switch x.Kind {
		case token.STRING:
			s, err := strconv.Unquote(x.Value)
			return s, err == nil
		case token.CHAR:
			s, err := strconv.Unquote(x.Value)
			if err != nil {
				return nil, false
			}
			return int([]rune(s)[0]), true
		case token.INT:
			n, err := strconv.Atoi(x.Value)
			return n, err == nil
		}
	case *ast.SelectorExpr: // base.NIL etc.
		if id, ok := x.X.(*ast.Ident); ok && id.Name == "base" {
			return "base." + x.Sel.Name, true
		}
	}
	return nil, false
}

// switchLabels collects, for the first switch statement in fn whose tag is the identifier
// (or selector) spelled tagName, the list of case clauses as label lists.
func switchClauses(fn *ast.FuncDecl, tagName string) []*ast.CaseClause {
	var out []*ast.CaseClause
	found := false
	ast.Inspect(fn.Body, func(n ast.Node) bool {
		if found {
			return false
		}
		sw, ok := n.(*ast.SwitchStmt)
		if !ok || sw.Tag == nil {
			return true
		}
		if exprString(sw.Tag) != tagName {
			return true
		}
		found = true
		for _, s := range sw.Body.List {
			out = append(out, s.(*ast.CaseClause))
		}
		return false
	})
	return out
}

func exprString(e ast.Expr) string {
	switch x := e.(type) {
	case *ast.Ident:
		return x.Name
	case *ast.SelectorExpr:
		return exprString(x.X) + "." + x.Sel.Name
	}
	return "?"
}

type out struct {
	BuiltinTable   [][2]any       `json:"builtin_table"` // [name, VerifT]
	AllTypeNames   []string       `json:"all_type_names"`
	NilT           *base.VerifT   `json:"nil_t"`
	LexerSingle    []int          `json:"lexer_single"`  // runes the lexer emits as their own token code
	LexerDot       bool           `json:"lexer_dot"`     // '.' emitted as its own token code
	ParserPuncts   []int          `json:"parser_puncts"` // runes parser.Read accepts as punctuation
	TokenConsts    map[string]int `json:"token_consts"`
	TypeNames      [][2]any       `json:"type_names"` // [tag code, TypeToString of a bare T with that tag]
	MapRangeSites  []mapSite      `json:"map_range_sites"`
	IsIdentNonChar []int          `json:"ident_nonchars"`
	Reserved       [][2]any       `json:"reserved"` // [name, token constant name]
	TypeConsts     []string       `json:"type_consts"`     // names of the const block of base/type.go, in order
	TTSCases       []string       `json:"tts_cases"`       // case labels of base.TypeToString's switch
	USpace         [][2]int       `json:"uspace"`   // unicode.IsSpace as inclusive ranges
	UDigit         [][2]int       `json:"udigit"`
	UUpper         [][2]int       `json:"uupper"`
	ULower         [][2]int       `json:"ulower"`
}

func ranges(pred func(rune) bool) [][2]int {
	var out [][2]int
	start := -1
	for c := 0; c <= 0x110000; c++ {
		in := c <= 0x10FFFF && pred(rune(c))
		if in && start < 0 {
			start = c
		}
		if !in && start >= 0 {
			out = append(out, [2]int{start, c - 1})
			start = -1
		}
	}
	return out
}

func main() {
	if len(os.Args) > 1 {
		repo = os.Args[1]
	}
	var o out

	// ---- builtin/defined_type.go: ConvertToBuiltinT labels, evaluated by the real function
	dt := parseFile("builtin/defined_type.go")
	fn := findFunc(dt, "", "ConvertToBuiltinT")
	if fn == nil {
		fail("ConvertToBuiltinT not found")
	}
	for _, cc := range switchClauses(fn, "typeStr") {
		for _, l := range cc.List {
			v, ok := litValue(l)
			s, isStr := v.(string)
			if !ok || !isStr {
				fail("ConvertToBuiltinT: non-literal case label")
			}
			t := builtin.ConvertToBuiltinT(s)
			o.BuiltinTable = append(o.BuiltinTable, [2]any{s, t.VerifProject()})
		}
	}
	o.AllTypeNames = append([]string{}, builtin.AllTypeNames...)
	nt := builtin.NilT
	o.NilT = nt.VerifProject()

	// ---- lexer.Advance: single-rune tokens; parser.Read: accepted punctuation
	lx := parseFile("lexer/lexer.go")
	adv := findFunc(lx, "l", "Advance")
	if adv == nil {
		fail("lexer.Advance not found")
	}
	for _, cc := range switchClauses(adv, "char") {
		// a clause whose body is exactly `l.tok = char`
		if len(cc.Body) == 1 {
			if as, ok := cc.Body[0].(*ast.AssignStmt); ok && len(as.Lhs) == 1 &&
				exprString(as.Lhs[0]) == "l.tok" && exprString(as.Rhs[0]) == "char" {
				for _, l := range cc.List {
					v, ok := litValue(l)
					n, isInt := v.(int)
					if !ok || !isInt {
						fail("lexer.Advance: non-char label in single-token clause")
					}
					o.LexerSingle = append(o.LexerSingle, n)
				}
			}
		}
		// the '.' clause assigns l.tok = char somewhere inside
		if len(cc.List) == 1 {
			if v, ok := litValue(cc.List[0]); ok && v == int('.') {
				ast.Inspect(cc, func(n ast.Node) bool {
					if as, ok := n.(*ast.AssignStmt); ok && len(as.Lhs) == 1 &&
						exprString(as.Lhs[0]) == "l.tok" && exprString(as.Rhs[0]) == "char" {
						o.LexerDot = true
					}
					return true
				})
			}
		}
	}
	sort.Ints(o.LexerSingle)

	pr := parseFile("parser/read.go")
	rd := findFunc(pr, "p", "Read")
	if rd == nil {
		fail("parser.Read not found")
	}
	for _, cc := range switchClauses(rd, "p.token") {
		allChars := len(cc.List) > 0
		var runes []int
		for _, l := range cc.List {
			v, ok := litValue(l)
			n, isInt := v.(int)
			if !ok || !isInt {
				allChars = false
				break
			}
			runes = append(runes, n)
		}
		if allChars {
			o.ParserPuncts = append(o.ParserPuncts, runes...)
		}
	}
	sort.Ints(o.ParserPuncts)

	// ---- lexer/predicate.go isIdentifierChar: the runes compared with c
	pd := parseFile("lexer/predicate.go")
	iic := findFunc(pd, "", "isIdentifierChar")
	if iic == nil {
		fail("isIdentifierChar not found")
	}
	ast.Inspect(iic.Body, func(n ast.Node) bool {
		be, ok := n.(*ast.BinaryExpr)
		if !ok || be.Op != token.EQL || exprString(be.X) != "c" {
			return true
		}
		v, ok := litValue(be.Y)
		if !ok {
			fail("isIdentifierChar: unreadable comparison")
		}
		switch x := v.(type) {
		case int:
			o.IsIdentNonChar = append(o.IsIdentNonChar, x)
		case string:
			if x == "base.NIL" {
				o.IsIdentNonChar = append(o.IsIdentNonChar, base.NIL)
			} else {
				fail("isIdentifierChar: unexpected constant " + x)
			}
		}
		return true
	})
	sort.Ints(o.IsIdentNonChar)

	o.TokenConsts = map[string]int{
		"EOS": base.EOS, "NIL": base.NIL, "INT": base.INT, "UNKNOWN": base.UNKNOWN,
		"STRING": base.STRING, "BOOL": base.BOOL, "FLOAT": base.FLOAT, "UNTYPED": base.UNTYPED,
		"ARRAY": base.ARRAY, "HASH": base.HASH, "UNION": base.UNION, "OBJECT": base.OBJECT,
		"BLOCK": base.BLOCK, "CLASS": base.CLASS, "SELF": base.SELF, "SYMBOL": base.SYMBOL,
		"KEYVALUE": base.KEYVALUE, "CONST": base.CONST, "RANGE": base.RANGE, "UNIFY": base.UNIFY,
		"OPTIONAL_UNIFY": base.OPTIONAL_UNIFY, "BLOCK_RESULT_ARRAY": base.BLOCK_RESULT_ARRAY,
		"SELF_ARRAY": base.SELF_ARRAY, "ARGUMENT": base.ARGUMENT, "UNIFY_ARGUMENT": base.UNIFY_ARGUMENT,
		"KEYVALUE_ARRAY": base.KEYVALUE_ARRAY, "FLATTEN": base.FLATTEN, "ITEM": base.ITEM,
		"OWNER": base.OWNER,
	}

	// ---- lexer.New: reserved[...] = rune(base.X)
	nw := findFunc(lx, "", "New")
	if nw == nil {
		fail("lexer.New not found")
	}
	ast.Inspect(nw.Body, func(n ast.Node) bool {
		as, ok := n.(*ast.AssignStmt)
		if !ok || len(as.Lhs) != 1 {
			return true
		}
		ix, ok := as.Lhs[0].(*ast.IndexExpr)
		if !ok || exprString(ix.X) != "reserved" {
			return true
		}
		k, ok1 := litValue(ix.Index)
		call, ok2 := as.Rhs[0].(*ast.CallExpr)
		if !ok1 || !ok2 || len(call.Args) != 1 {
			fail("lexer.New: unreadable reserved entry")
		}
		o.Reserved = append(o.Reserved, [2]any{k, exprString(call.Args[0])})
		return true
	})
	o.USpace = ranges(unicode.IsSpace)
	o.UDigit = ranges(unicode.IsDigit)
	o.UUpper = ranges(unicode.IsUpper)
	o.ULower = ranges(unicode.IsLower)

	// ---- base/type.go: the constant block and TypeToString's case labels
	tg := parseFile("base/type.go")
	for _, d := range tg.Decls {
		gd, ok := d.(*ast.GenDecl)
		if !ok || gd.Tok != token.CONST {
			continue
		}
		for _, sp := range gd.Specs {
			for _, n := range sp.(*ast.ValueSpec).Names {
				o.TypeConsts = append(o.TypeConsts, n.Name)
			}
		}
	}
	tts := findFunc(tg, "", "TypeToString")
	if tts == nil {
		fail("TypeToString not found")
	}
	for _, cc := range switchClauses(tts, "t.tType") {
		for _, l := range cc.List {
			o.TTSCases = append(o.TTSCases, exprString(l))
		}
	}

	o.MapRangeSites = mapRangeSites()

	enc := json.NewEncoder(os.Stdout)
	enc.SetIndent("", " ")
	enc.Encode(o)
}
