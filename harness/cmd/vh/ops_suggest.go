package main

import (
	"encoding/json"
	"fmt"
	"io"
	"os"
	"strings"

	"ti/base"
	"ti/cmd"
	"ti/parser"
)

type jnode struct {
	Frame   string `json:"frame"`
	Class   string `json:"class"`
	Include bool   `json:"include"`
	Extend  bool   `json:"extend"`
}

type jedge struct {
	Frame   string  `json:"frame"`
	Class   string  `json:"class"`
	Parents []jnode `json:"parents"`
}

func setWorld(r req) func() {
	var edges []jedge
	var builtin []string
	json.Unmarshal(r["edges"], &edges)
	json.Unmarshal(r["builtin"], &builtin)
	savedM, savedB := base.ClassInheritanceMap, base.BuiltinClasses
	base.ClassInheritanceMap = map[base.ClassNode][]base.ClassNode{}
	for _, e := range edges {
		k := base.ClassNode{Frame: e.Frame, Class: e.Class}
		for _, p := range e.Parents {
			base.ClassInheritanceMap[k] = append(base.ClassInheritanceMap[k], base.ClassNode{Frame: p.Frame, Class: p.Class, IsInclude: p.Include, IsExtend: p.Extend})
		}
	}
	base.BuiltinClasses = builtin
	return func() { base.ClassInheritanceMap, base.BuiltinClasses = savedM, savedB }
}

func jsigToSig(s jsig) base.Sig {
	return base.Sig{Method: s.Method, Detail: s.Detail, Frame: s.Frame, Class: s.Class, IsStatic: s.IsStatic,
		IsPrivate: s.IsPrivate, FileName: s.FileName, Row: s.Row, Document: s.Document}
}

func init() {
	ops["is_parent_class"] = func(r req) any {
		defer setWorld(r)()
		var s jsig
		json.Unmarshal(r["sig"], &s)
		return map[string]any{"r": cmd.VerifIsParentClass(jsigToSig(s), r.str("frame"), r.str("class"), r.boolean("static"), false, false)}
	}
	ops["is_suggest"] = func(r req) any {
		defer setWorld(r)()
		var s jsig
		json.Unmarshal(r["sig"], &s)
		t := r.ty("target")
		t.VerifSetTargetFields(r.str("dm"))
		oc, st := cmd.VerifCalcObjectClass(*t)
		return map[string]any{"r": cmd.VerifIsSuggest(*t, jsigToSig(s)), "oc": oc, "st": st, "str": t.ToString(),
			"ko": cmd.VerifIsSuggestForKernelOrObject(*t, s.Class)}
	}
}

// captureStdout runs f with os.Stdout redirected to a pipe and returns what f printed.
func captureStdout(f func()) string {
	saved := os.Stdout
	rd, wr, err := os.Pipe()
	if err != nil {
		panic(err)
	}
	os.Stdout = wr
	done := make(chan string)
	go func() {
		b, _ := io.ReadAll(rd)
		done <- string(b)
	}()
	func() {
		defer func() {
			os.Stdout = saved
			wr.Close()
		}()
		f()
	}()
	return <-done
}

func init() {
	// print_query: what PrintSuggestionsForLsp / PrintHover / PrintAllDefinitionsForLsp print for a captured target
	ops["print_query"] = func(r req) any {
		defer setWorld(r)()
		var in []jsig
		json.Unmarshal(r["sigs"], &in)
		savedS, savedG := base.TSignatures, base.GlobT
		defer func() { base.TSignatures, base.GlobT = savedS, savedG }()
		base.TSignatures = map[string]base.Sig{}
		for i, s := range in {
			base.TSignatures[fmt.Sprintf("k%05d", i)] = jsigToSig(s)
		}
		t := r.ty("target")
		t.VerifSetTargetFields(r.str("dm"))
		p := parser.Parser{LspSuggestTargetT: *t}
		str := t.ToString()
		var out string
		switch r.str("mode") {
		case "suggest":
			out = captureStdout(func() { cmd.PrintSuggestionsForLsp(p) })
		case "hover":
			base.GlobT = *r.ty("glob")
			out = captureStdout(func() { cmd.PrintHover(p) })
		case "define":
			out = captureStdout(func() { cmd.PrintAllDefinitionsForLsp(p) })
		}
		lines := strings.Split(out, "\n")
		if len(lines) > 0 && lines[len(lines)-1] == "" {
			lines = lines[:len(lines)-1]
		}
		vstrs := []string{}
		for _, v := range t.GetVariants() {
			vstrs = append(vstrs, v.ToString())
		}
		return map[string]any{"lines": lines, "str": str, "vstrs": vstrs, "is_identifier": t.IsIdentifierType()}
	}
}

func init() {
	// parent_lookup: getParentMethodT on a given inheritance map and method table; the answer is the class that
	// defines the method found ("" when none).  Methods are defined under scratch names and removed afterwards.
	ops["parent_lookup"] = func(r req) any {
		defer setWorld(r)()
		var defs []struct {
			Frame  string `json:"frame"`
			Class  string `json:"class"`
			Static bool   `json:"static"`
		}
		json.Unmarshal(r["defs"], &defs)
		method := "vq_lookup_probe"
		classes := map[string]bool{}
		for _, d := range defs {
			t := base.MakeMethod(d.Frame, method, *base.MakeAnyInt(), []string{})
			t.DefinedFrame, t.DefinedClass = d.Frame, d.Class
			if d.Static {
				base.SetClassMethodT(d.Frame, d.Class, t, false, "h.rb", 1)
			} else {
				base.SetMethodT(d.Frame, d.Class, t, false, "h.rb", 1)
			}
			classes[d.Class] = true
		}
		defer func() {
			for c := range classes {
				base.VerifDeleteClass(c)
			}
		}()
		t := base.VerifParentMethod(r.str("frame"), r.str("class"), method, false, r.boolean("static"))
		if t == nil {
			return map[string]any{"found": false}
		}
		return map[string]any{"found": true, "frame": t.DefinedFrame, "class": t.DefinedClass}
	}
}
