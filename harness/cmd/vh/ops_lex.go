package main

import (
	"bufio"
	"bytes"
	"encoding/base64"
	"fmt"
	"os"
	"time"

	"ti/base"
	"ti/lexer"
	"ti/lexer/reader"
	"ti/parser"
)

type lexTok struct {
	Tag   int    `json:"tag"`
	Str   string `json:"s"`   // ToString for string-valued tokens (base64 of the raw bytes)
	Int   int64  `json:"i"`   // value of an INT token
	Space bool   `json:"sp"`  // IsBeforeSpace
	Row   int    `json:"row"` // p.Row after the Read
	ERow  int    `json:"erow"`
}

func init() {
	// lex: drive parser.Read over the bytes until nil / error / max tokens; a watchdog turns a
	// non-terminating lexer into an explicit answer (and ends the process, the spinning goroutine
	// cannot be stopped).
	ops["lex"] = func(r req) any {
		raw, _ := base64.StdEncoding.DecodeString(r.str("b64"))
		max := r.integer("max")
		if max == 0 {
			max = 100000
		}
		type result struct {
			Runes []int    `json:"runes"`
			Toks  []lexTok `json:"toks"`
			End   string   `json:"end"` // eos | error | max | panic
			Eof   bool     `json:"eof"` // reader delivered every rune
			Panic string   `json:"panic,omitempty"`
		}
		done := make(chan result, 1)
		go func() {
			var res result
			defer func() {
				if e := recover(); e != nil {
					res.End = "panic"
					res.Panic = fmt.Sprint(e)
					done <- res
				}
			}()
			for _, c := range []rune(string(raw)) {
				res.Runes = append(res.Runes, int(c))
			}
			br := bufio.NewReader(bytes.NewReader(raw))
			p := parser.New(lexer.New(reader.New(*br)), "f.rb")
			res.End = "max"
			for i := 0; i < max; i++ {
				t, err := p.Read()
				if err != nil {
					res.End = "error"
					break
				}
				if t == nil {
					res.End = "eos"
					break
				}
				lt := lexTok{Tag: t.GetType(), Space: t.IsBeforeSpace, Row: p.Row, ERow: p.ErrorRow}
				switch v := t.GetVal().(type) {
				case string:
					lt.Str = base64.StdEncoding.EncodeToString([]byte(v))
				case int64:
					lt.Int = v
				}
				res.Toks = append(res.Toks, lt)
			}
			res.Toks = append(res.Toks, lexTok{Tag: -2, Row: p.Row, ERow: p.ErrorRow})
			res.Eof = p.Lexer.VerifAtEOF()
			done <- res
		}()
		select {
		case res := <-done:
			return res
		case <-time.After(3 * time.Second):
			return hangAnswer{}
		}
	}
	_ = base.NIL
	_ = os.Exit
}

type hangAnswer struct{}
