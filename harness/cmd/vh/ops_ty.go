package main

import (
	"encoding/json"

	"ti/base"
	ev "ti/eval"
	me "ti/eval/method_evaluator"
)

func (r req) ty(k string) *base.T {
	var v *base.VerifT
	if raw, ok := r[k]; ok {
		json.Unmarshal(raw, &v)
	}
	return base.VerifFromProjection(v)
}

func (r req) tys(k string) []*base.T {
	var vs []*base.VerifT
	if raw, ok := r[k]; ok {
		json.Unmarshal(raw, &vs)
	}
	out := []*base.T{}
	for _, v := range vs {
		out = append(out, base.VerifFromProjection(v))
	}
	return out
}

func init() {
	ops["append_variant"] = func(r req) any {
		t, v := r.ty("t"), r.ty("v")
		t.AppendVariant(*v)
		return map[string]any{"t": t.VerifProject()}
	}
	ops["unify"] = func(r req) any {
		t := r.ty("t")
		u := t.UnifyVariants()
		return map[string]any{"t": u.VerifProject()}
	}
	ops["make_unified"] = func(r req) any {
		var vs []base.T
		for _, t := range r.tys("ts") {
			vs = append(vs, *t)
		}
		return map[string]any{"t": base.MakeUnifiedT(vs).VerifProject()}
	}
	ops["type_to_string"] = func(r req) any {
		return map[string]any{"s": base.TypeToString(r.ty("t"))}
	}
	ops["sig_to_string"] = func(r req) any {
		return map[string]any{"s": base.TypeToStringForSignature(r.ty("t"))}
	}
	ops["preds"] = func(r req) any {
		t, v := r.ty("t"), r.ty("v")
		return map[string]any{"match": t.IsMatchType(v), "match_union": t.IsMatchUnionType(v),
			"equal_object": t.IsEqualObject(v)}
	}
	ops["check_arg_type"] = func(r req) any {
		return map[string]any{"err": me.VerifCheckArgType(r.ty("d"), r.ty("a"))}
	}
	ops["block_params"] = func(r req) any {
		var s ev.VerifBlockParametersSpec
		json.Unmarshal(r["spec"], &s)
		return ev.VerifBlockParameters(&s)
	}
	ops["cond_return"] = func(r req) any {
		var s me.VerifConditionalReturnSpec
		json.Unmarshal(r["spec"], &s)
		return map[string]any{"t": me.VerifConditioningMethodReturn(&s)}
	}
	ops["exec_type"] = func(r req) any {
		var s me.VerifExecTypeSpec
		json.Unmarshal(r["spec"], &s)
		return me.VerifCalculateExecutionType(&s)
	}
	ops["check_args"] = func(r req) any {
		var s me.VerifCheckArgsSpec
		json.Unmarshal(r["spec"], &s)
		return me.VerifCheckArgs(&s)
	}
	ops["prioritize"] = func(r req) any {
		var names []string
		json.Unmarshal(r["names"], &names)
		out := []*base.VerifT{}
		for _, t := range me.VerifPrioritizeArgTs(r.tys("ts")) {
			out = append(out, t.VerifProject())
		}
		return map[string]any{"names": me.VerifPrioritizeDefineArgNames(names), "ts": out}
	}
}

func init() {
	// hash_ops: a hash built by AppendHashVariant from the pairs, and HashReference on every asked key
	ops["hash_ops"] = func(r req) any {
		var keys, asks []string
		json.Unmarshal(r["keys"], &keys)
		json.Unmarshal(r["asks"], &asks)
		vals := r.tys("vals")
		h := base.MakeAnyHash()
		for i, k := range keys {
			h.AppendHashVariant(*base.MakeKeyValue(k, vals[i]))
		}
		out := []*base.VerifT{}
		for _, k := range asks {
			out = append(out, h.HashReference(k).VerifProject())
		}
		return map[string]any{"h": h.VerifProject(), "refs": out}
	}
}
