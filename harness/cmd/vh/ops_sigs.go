package main

import (
	"encoding/json"
	"fmt"

	"ti/base"
)

type jsig struct {
	Method    string `json:"method"`
	Detail    string `json:"detail"`
	Frame     string `json:"frame"`
	Class     string `json:"class"`
	IsStatic  bool   `json:"static"`
	IsPrivate bool   `json:"private"`
	FileName  string `json:"file"`
	Row       int    `json:"row"`
	Document  string `json:"doc"`
}

func toJ(s base.Sig) jsig {
	return jsig{s.Method, s.Detail, s.Frame, s.Class, s.IsStatic, s.IsPrivate, s.FileName, s.Row, s.Document}
}

func init() {
	// sort_sigs: fill base.TSignatures with the given values (under arbitrary distinct keys) and return both listings
	ops["sort_sigs"] = func(r req) any {
		var in []jsig
		json.Unmarshal(r["sigs"], &in)
		saved := base.TSignatures
		base.TSignatures = map[string]base.Sig{}
		for i, s := range in {
			base.TSignatures[fmt.Sprintf("k%05d", i)] = base.Sig{Method: s.Method, Detail: s.Detail, Frame: s.Frame,
				Class: s.Class, IsStatic: s.IsStatic, IsPrivate: s.IsPrivate, FileName: s.FileName, Row: s.Row, Document: s.Document}
		}
		byM, byC := []jsig{}, []jsig{}
		for _, s := range base.GetSortedTSignatures() {
			byM = append(byM, toJ(s))
		}
		for _, s := range base.GetSortedTSignaturesByClass() {
			byC = append(byC, toJ(s))
		}
		base.TSignatures = saved
		return map[string]any{"by_method": byM, "by_class": byC}
	}
}
