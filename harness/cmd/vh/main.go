// vh — correspondence harness: reads one JSON request per line on stdin, calls the real
// ruby-ti function (built from /repo's working tree with -tags verif) and writes one JSON
// answer per line.
package main

import (
	"bufio"
	"encoding/json"
	"fmt"
	"os"
)

type req map[string]json.RawMessage

func (r req) str(k string) string {
	var s string
	if v, ok := r[k]; ok {
		json.Unmarshal(v, &s)
	}
	return s
}

func (r req) boolean(k string) bool {
	var s bool
	if v, ok := r[k]; ok {
		json.Unmarshal(v, &s)
	}
	return s
}

func (r req) integer(k string) int {
	var s int
	if v, ok := r[k]; ok {
		json.Unmarshal(v, &s)
	}
	return s
}

var ops = map[string]func(r req) any{}

func handle(r req) (out any) {
	defer func() {
		if e := recover(); e != nil {
			out = map[string]any{"panic": fmt.Sprint(e)}
		}
	}()
	f, ok := ops[r.str("op")]
	if !ok {
		return map[string]any{"error": "unknown op " + r.str("op")}
	}
	return f(r)
}

func main() {
	in := bufio.NewReaderSize(os.Stdin, 1<<20)
	out := bufio.NewWriterSize(os.Stdout, 1<<20)
	defer out.Flush()
	dec := json.NewDecoder(in)
	enc := json.NewEncoder(out)
	for {
		var r req
		if err := dec.Decode(&r); err != nil {
			break
		}
		ans := handle(r)
		if _, hung := ans.(hangAnswer); hung {
			enc.Encode(map[string]any{"hang": true})
			out.Flush()
			os.Exit(7)
		}
		enc.Encode(ans)
	}
}
