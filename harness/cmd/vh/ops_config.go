package main

import (
	"ti/base"
	"ti/builtin"
)

func init() {
	ops["parse_type"] = func(r req) any {
		t := builtin.VerifParseTypeString(r.str("s"))
		return map[string]any{"t": t.VerifProject()}
	}
	ops["parse_args"] = func(r req) any {
		ts, err := builtin.VerifParseArguments(string(r["args"]))
		if err != nil {
			return map[string]any{"error": err.Error()}
		}
		out := []*base.VerifT{}
		for i := range ts {
			out = append(out, ts[i].VerifProject())
		}
		return map[string]any{"ts": out}
	}
	ops["parse_ret"] = func(r req) any {
		t, err := builtin.VerifParseReturnType(string(r["ret"]))
		if err != nil {
			return map[string]any{"error": err.Error()}
		}
		return map[string]any{"t": t.VerifProject()}
	}
	ops["snapshot"] = func(r req) any {
		return base.VerifSnapshot(r.boolean("builtin_only"))
	}
}
