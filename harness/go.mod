module vh

go 1.24.5

require ti v0.0.0

replace ti => /repo
